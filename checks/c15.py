"""C15 - comments are transparent; annotations stick to the next option (DESIGN.md 7/C15)."""
import time, zlib
from vlib import core, schema
from vlib import gen as G
from vlib.core import hx, unhx, Verdict, F_LIST, F_COMMENTS
from vlib.schema import D

PROP = 'C15'
VARIANTS = ['asan']
# inserted layout / comment forms: (text, needs newline after)
FORMS = [('#x', True), ('//x', True), ('/*x*/', False), ('/* multi\n line */', False), ('#', True), ('//', True), ('/**/', False),
         ('#### hh', True), ('   ', False), ('\n\n', False), ('\t', False), ('/* "q" \'s\' ${v} { } = , */', False), ('# "unbalanced', True), ('/***/', False),
         ('# ' + 'long comment ' * 4, True), ('/* ' + 'block comment text ' * 5 + '*/', False), ('//' + 'x' * 33, True),
         ('/* a * b */', False), ('/** doc */', False), ('/*** x ***/', False), ('/* 2*3 / 4 */', False), ('/* star*\n *next */', False),
         ('#!glued to the token before it', True), ('# a \r inside = { ,', True), ('// cr \r } = x', True)]      # ('#!' = written without the blank in front: a '#' ends any token)
ANN = [('# hello world', True, 'hello world'), ('// slashes', True, 'slashes'), ('/* c style */', False, 'c style'),
       ('/*  multi\n   line  */', False, 'multi\n   line'), ('####   hashes  ', True, 'hashes'), ('////deep', True, 'deep'), ('/*tight*/', False, 'tight'),
       ('#/etc/app conf', True, '/etc/app conf'), ('//#42 hash', True, '#42 hash'), ('# open /* only', True, 'open /* only'),
       ('/*\n  boxed\n*/', False, 'boxed'), ('/*\n * star line\n */', False, '* star line'), ('# cr\r', True, 'cr'), ('/*\ttabbed\t*/', False, 'tabbed'),
       ('# ' + 'a long annotation ' * 3, True, ('a long annotation ' * 3).strip()), ('/* ' + 'w' * 33 + ' */', False, 'w' * 33),
       ('#\x0c form feed and vertical tab \x0b', True, 'form feed and vertical tab'), ('/*\x0b\x0c both ends \x0c*/', False, 'both ends'),
       ('/* dos\r\n   lines\r\n   here */', False, 'dos\r\n   lines\r\n   here'), ('// tab end\t', True, 'tab end'),
       ('# ' + 'word ' * 30, True, ('word ' * 30).strip()), ('/* ' + 'a somewhat longer annotation, ' * 12 + 'end */', False, 'a somewhat longer annotation, ' * 12 + 'end'),
       ('# ' + 'x' * 5000, True, 'x' * 5000), ('/* first line\n' + 'more text on this line ' * 8 + '\nlast */', False, 'first line\n' + 'more text on this line ' * 8 + '\nlast'),
       ('# ends a C comment */ early', True, 'ends a C comment */ early'), ('// a */', True, 'a */'), ('# */', True, '*/'),
       ('#', True, None), ('//', True, None), ('/**/', False, None), ('/* */', False, None), ('###', True, None)]
RULE = ('grammar-derived accepted texts and token-mutated rejected texts x every token boundary (also inside lists, after =, between section name/title and {, '
        'inside call arguments) x %d inserted forms (#x //x /*x*/ multi-line, empty and marker-only comments, blanks, newlines), annotation support on and off: '
        'return code and values-only tree hash must equal the uncommented run. Annotation clause (support on): a comment placed immediately before a top-level '
        'scalar / non-empty-list assignment is returned trimmed by the comment getter, printed, and read back by a re-parse of the print; values and annotations of the whole tree '
        'equal those of the uncommented text with that one annotation set through the API (the comment reaches no other option). '
        'non-trivial: the insertion point is inside an item or the comment is empty/multi-line; distinct = (text, boundary, form, flag)' % len(FORMS))


def flagsets(spec):
    if spec.get('ign'):
        return (0, F_COMMENTS, core.F_IGNORE_UNKNOWN, core.F_IGNORE_UNKNOWN | F_COMMENTS)
    return (0, F_COMMENTS)


def join(toks):
    return ' '.join(t[1] for t in toks) + '\n'


def insert(toks, k, form):
    txt, nl = form
    left = ' '.join(t[1] for t in toks[:k])
    right = ' '.join(t[1] for t in toks[k:])
    if txt.startswith('#!'):
        return left + txt + '\n' + right
    return left + ' ' + txt + ('\n' if nl else ' ') + right + '\n'


def mutate(rng, toks):
    t = list(toks)
    if not t:
        return t
    r = rng.random()
    i = rng.randrange(len(t))
    if r < 0.4:
        del t[i]
    elif r < 0.7:
        t.insert(i, t[i])
    else:
        j = rng.randrange(len(t))
        t[i], t[j] = t[j], t[i]
    return t


def inside_item(toks, k):
    """is boundary k (before token k) inside an item rather than between two items?"""
    if k <= 0 or k >= len(toks):
        return False
    prev, nxt = toks[k - 1][0], toks[k][0]
    if nxt == 'name' and prev in ('val', '}', ')'):
        return False
    if nxt == 'name' and prev == '{':
        return False
    if nxt == '}' and prev in ('val', '}', ')', '{'):
        # closing a section after a complete item is between items; closing a list is inside
        return prev == 'val' or prev == '{'
    return True


def gen(tier, seed):
    rng = core.seeded_rng(seed, 'c15')
    n = 400 if tier == 'quick' else 6000
    for i in range(n):
        so = G.SchemaOpts(funcs=True, keystrval=False, depth=2, maxopts=4)
        decls = G.gen_schema(rng, so)
        toks = G.gen_text(rng, decls, fancy=False)
        while len(toks) > 40:
            toks = G.gen_text(rng, decls, fancy=False)
        variants = [toks]
        for _ in range(2):
            variants.append(mutate(rng, toks))
        # one variant with undeclared items (judged under ignore-unknown as well)
        unk = rng.choice([[['name', 'unk', 'unk'], ['=', '=', None], ['val', '5', '5']],
                          [['name', 'unk', 'unk'], ['title', 'ttl', 'ttl'], ['{', '{', None], ['name', 'a', 'a'], ['=', '=', None], ['val', '1', '1'], ['}', '}', None]],
                          [['name', 'unk', 'unk'], ['+=', '+=', None], ['{', '{', None], ['val', '1', '1'], [',', ',', None], ['val', '2', '2'], ['}', '}', None]],
                          [['name', 'unk', 'unk'], ['(', '(', None], ['val', 'x', 'x'], [')', ')', None]],
                          [['name', 'unk', 'unk'], ['{', '{', None], ['name', 'in', 'in'], ['{', '{', None], ['}', '}', None], ['}', '}', None]]])
        variants.append((toks + unk) if rng.random() < 0.5 else (unk + toks))
        for vi, tk in enumerate(variants):
            # annotation probes on the unmutated text only
            ann = []
            if vi == 0:
                names = {d.name: d for d in decls}
                for k, t in enumerate(tk):
                    if t[0] != 'name' or t[1] not in names or depth_at(tk, k) != 0:
                        continue
                    d = names[t[1]]
                    if d.typ not in ('int', 'float', 'bool', 'str'):
                        continue
                    if d.is_list:
                        # non-empty braced list
                        braced = k + 3 < len(tk) and tk[k + 2][0] == '{' and tk[k + 3][0] == 'val'
                        single = k + 2 < len(tk) and tk[k + 2][0] == 'val'
                        if not (braced or single):
                            continue
                    ann.append(k)
                rng.shuffle(ann)
                ann = ann[:3]
            yield {'decls': [d.to_json() for d in decls], 'toks': tk, 'ann': ann, 'mut': vi, 'ign': vi == 3}


def depth_at(toks, k):
    d = 0
    for t in toks[:k]:
        if t[0] == '{':
            d += 1
        elif t[0] == '}':
            d -= 1
    return d


def script(spec):
    decls = [D.from_json(j) for j in spec['decls']]
    lines, sid = schema.emit_schema(decls)
    toks = spec['toks']
    for fl in flagsets(spec):
        lines.append('note base')
        lines.append('init 0 %d %d' % (sid, fl))
        lines.append('parse_buf 0 %s' % hx(join(toks)))
        lines.append('vhash 0')
        lines.append('free 0')
        for k in range(len(toks) + 1):
            for form in FORMS:
                lines.append('init 0 %d %d' % (sid, fl))
                lines.append('parse_buf 0 %s' % hx(insert(toks, k, form)))
                lines.append('vhash 0')
                lines.append('free 0')
    for k in spec['ann']:
        for txt, nl, body in ANN:
            lines.append('note ann')
            lines.append('init 0 %d %d' % (sid, F_COMMENTS))
            lines.append('parse_buf 0 %s' % hx(insert(toks, k, (txt, nl))))
            lines.append('get 0 comment %s 0' % hx(toks[k][1]))
            lines.append('get 0 size %s 0' % hx(toks[k][1]))
            lines.append('vhash 0 1')
            lines.append('init 1 %d %d' % (sid, F_COMMENTS))
            lines.append('print_parse 0 1')
            lines.append('get 1 comment %s 0' % hx(toks[k][1]))
            lines.append('vhash 1')
            lines.append('free 1')
            lines.append('free 0')
            # reference: the text without the comment, the annotation put on that one option through the API
            lines.append('init 2 %d %d' % (sid, F_COMMENTS))
            lines.append('parse_buf 2 %s' % hx(join(toks)))
            if body is not None:
                lines.append('setcomment 2 %s %s' % (hx(toks[k][1]), hx(body)))
            lines.append('vhash 2 1')
            lines.append('free 2')
    return '\n'.join(lines)


def judge(spec, events, death):
    v = Verdict()
    toks = spec['toks']
    if death is not None:
        # which insertion was in flight?
        nparse = len([e for e in events if e.get('ev') == 'r' and e.get('op') == 'parse_buf'])
        per_flag = 1 + (len(toks) + 1) * len(FORMS)
        nfl = len(flagsets(spec))
        idx = nparse % per_flag if nparse < nfl * per_flag else -1
        if idx > 0:
            form = FORMS[(idx - 1) % len(FORMS)][0]
            where = 'flagset-%d' % (nparse // per_flag)
        else:
            form, where = '?', 'annotation-probe' if nparse >= nfl * per_flag else 'base'
        v.bad('crash:%s@%s:%s' % (death['kind'], death['where'], 'empty-comment' if form in ('#', '//', '/**/') else 'comment'),
              'inserting %r (%s): %s' % (form, where, death['text'][-500:]))
        return v
    evs = [e for e in events if e.get('ev') in ('note', 'vhash', 'get', 'printed') or (e.get('ev') == 'r' and e.get('op') in ('parse_buf', 'print_parse'))]
    pos = 0
    for fl in [('on' if f & F_COMMENTS else 'off') + ('+ignore-unknown' if f & core.F_IGNORE_UNKNOWN else '') for f in flagsets(spec)]:
        if pos + 2 >= len(evs) or evs[pos].get('ev') != 'note':
            v.bad('harness:short-log', 'base events missing')
            return v
        base_rc, base_h = evs[pos + 1]['rc'], evs[pos + 2]['h']
        pos += 3
        v.notes['base_accepted' if base_rc == 0 else 'base_rejected'] = v.notes.get('base_accepted' if base_rc == 0 else 'base_rejected', 0) + 1
        for k in range(len(toks) + 1):
            ins = inside_item(toks, k)
            for form in FORMS:
                r, h = evs[pos], evs[pos + 1]
                pos += 2
                v.notes['insertions'] = v.notes.get('insertions', 0) + 1
                if ins or form[0] in ('#', '//', '/**/', '/***/') or '\n' in form[0].strip('\n'):
                    v.notes.setdefault('nt', set()).add(zlib.crc32(repr((spec['toks'], k, form[0], fl)).encode()))
                if r['rc'] != base_rc or h['h'] != base_h:
                    ctx = '%s>%s' % (toks[k - 1][0] if k > 0 else 'start', toks[k][0] if k < len(toks) else 'end')
                    kind = 'accept-changed' if r['rc'] != base_rc else 'values-changed'
                    fk = 'blank' if form[0].strip() == '' else 'empty-comment' if form[0] in ('#', '//', '/**/', '/***/') else 'comment'
                    v.bad('%s:%s:%s:%s:comments-%s' % (kind, fk, 'inside-item' if ins else 'between-items', ctx, fl),
                          'inserting %r at boundary %d (%s) of %r: rc %s -> %s, values %s' % (form[0], k, ctx, join(toks)[:200], base_rc, r['rc'],
                                                                                             'equal' if h['h'] == base_h else 'differ'))
    # annotation probes
    for k in spec['ann']:
        for txt, nl, body in ANN:
            if pos + 11 > len(evs):
                v.bad('harness:short-log', 'annotation events missing')
                return v
            note, r, c0, sz0, ha, printed, rp, c1, h1, rref, href = evs[pos:pos + 11]
            pos += 11
            if r['rc'] != 0:
                v.bad('annotation:rejected:%s' % ('empty' if body is None else 'comment'), 'comment %r before %r makes the text rejected' % (txt, toks[k][1]))
                continue
            v.notes['annotation_probes'] = v.notes.get('annotation_probes', 0) + 1
            if body is None:
                continue         # empty / marker-only: only crash-freedom and transparency are judged
            got = unhx(c0['v'])
            if got != body:
                v.bad('annotation:not-attached', 'comment %r immediately before %r: annotation is %r, expected %r' % (txt, toks[k][1], got, body))
                continue
            if rref['rc'] == 0 and ha['h'] != href['h']:
                v.bad('annotation:elsewhere-too', 'comment %r immediately before %r: values and annotations of the whole tree differ from the uncommented text with that one annotation set through the API '
                      '(the comment reached another option as well, or changed a value); text %r' % (txt, toks[k][1], insert(toks, k, (txt, nl))[:300]))
                continue
            out = unhx(printed['out'])
            if ('/* %s */' % body) not in out and not ('*/' in body and ('# %s\n' % body) in out):
                v.bad('annotation:not-printed', 'annotation %r missing from the print %r' % (body, out[:200]))
            elif rp['rc'] != 0:
                v.bad('annotation:print-rejected', 'print with annotation %r is rejected on re-parse' % body)
            elif sz0['v'] == 0:
                v.notes['annotation_on_emptied_list'] = v.notes.get('annotation_on_emptied_list', 0) + 1   # a later '= {}' emptied it: nothing to re-read (statement: non-empty list)
            elif unhx(c1['v']) != body:
                v.bad('annotation:not-read-back', 'annotation %r read back as %r' % (body, unhx(c1['v'])))
    v.nontrivial = True
    return v


def run(tier, seed, bindirs):
    t0 = time.time()
    res = core.explore('checks.c15', gen(tier, seed), bindirs, chunk=4, opts={'timeout': 600})
    texts = res.evaluations
    if not res.extra.get('harness_errors'):
        res.evaluations = res.judged = res.extra.get('insertions', 0) + res.extra.get('annotation_probes', 0)
        res.nontrivial = res.extra.pop('nt', set())
    return core.finish(PROP, tier, seed, 'exploration', res, RULE, t0, floor=5000,
                       assumptions=['for empty and marker-only comments the annotation itself is not judged (NULL or empty are both fine), only crash-freedom and value transparency',
                                    'annotation probes are placed before top-level items only (the option is then addressable by name)'],
                       more={'texts': texts})
