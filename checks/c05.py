"""C05 - printed configuration parses back to the same configuration (DESIGN.md 7/C05)."""
import json, time
from vlib import core, schema
from vlib import gen as G
from vlib.core import hx, unhx, fhex, Verdict, F_LIST, F_MULTI, F_TITLE, F_NODEFAULT, F_COMMENTS, F_KEYSTRVAL
from vlib.schema import D

PROP = 'C05'
VARIANTS = ['asan']
RULE = ('random schemas of printable kinds (int/float/bool/str scalars and lists, single/multi/titled/key=value sections, no-default) x states produced by a random '
        'accepted text followed by a random setter sequence (typed setters, setlist/addlist, addtsec with arbitrary titles, by-path setters into new sections, annotations) '
        'with string values and titles over all bytes 1..255. Relations on real executions: print -> parse into a fresh context of the same schema is accepted with zero '
        'diagnostics and yields an equal tree (strings bytewise, ints/bools exact, floats equal after %f); second print equals the first (annotations off); third print equals '
        'the second (always). non-trivial: the state holds a string/title with a byte outside [A-Za-z0-9] or a nested section; distinct = hash(schema, text, ops)')

SPECIAL = ['"', '\\', '$', '{', '}', '#', '/', '*', "'", '\n', '${HOME}', '/*', '*/', '//', '${', '\\n', '\r', '\t', ' ', '=', ',', '+', '(', ')']


def rand_bytes(rng, printable=False):
    n = rng.choice([0, 1, 2, 3, 5, 8, 12])
    out = []
    for _ in range(n):
        r = rng.random()
        if r < 0.35:
            out.append(rng.choice(SPECIAL))
        elif r < 0.7 or printable:
            out.append(rng.choice('abcXYZ019 _-.'))
        else:
            out.append(chr(rng.randint(1, 255)))
    return ''.join(out)


def quote_title(t):
    return "'" + t.replace('\\', '\\\\').replace("'", "\\'") + "'"


def gen_ops(rng, decls, comments):
    """random setter sequence against the root context (script lines)"""
    L = []
    tops = [d for d in decls]
    for _ in range(rng.randint(0, 8)):
        d = rng.choice(tops)
        L += ops_for(rng, d, d.name, comments, 0)
    return L


def sval(rng, t):
    if t == 'int':
        return str(rng.choice(G.INTS + [-9223372036854775808]))
    if t == 'float':
        return fhex(rng.choice(G.FLOATS + [1e15, -3.75e-3, 1 / 3.0, 1e56, 1e57, -1e58, 1e63, 1e64, 1e100, -1e300, 1.7976931348623157e308, 1e-300, 123456789012345678.0]))
    if t == 'bool':
        return str(rng.randint(0, 1))
    if rng.random() < 0.04:
        # long values (print buffers, scanner buffers): specials spread over the whole length
        n = rng.choice([127, 128, 129, 254, 255, 256, 257, 300, 511, 512, 513, 700, 1023, 1024, 1025, 4100, 8200])
        return hx(''.join(rng.choice(SPECIAL) if rng.random() < 0.3 else rng.choice('abcXYZ019 _-.') for _ in range(n)))
    return hx(rand_bytes(rng))


def ops_for(rng, d, path, comments, depth):
    L = []
    hp = hx(path)
    if d.typ == 'sec':
        if d.is_multi and d.flags & F_TITLE:
            if depth == 0 and rng.random() < 0.02:
                for k in range(rng.choice([17, 33, 70])):
                    L.append('addtsec 0 %s %s' % (hx(path), hx('many %d' % k)))
            title = rand_bytes(rng)
            L.append('addtsec 0 %s %s' % (hx(path), hx(title)))
            sub = [x for x in (d.sub or [])]
            if sub and depth < 2:
                for _ in range(rng.randint(0, 3)):
                    x = rng.choice(sub)
                    L += ops_for(rng, x, path + '=' + quote_title(title) + '|' + x.name, comments, depth + 1)
        elif not d.is_multi and not (d.flags & F_NODEFAULT):
            sub = [x for x in (d.sub or [])]
            if sub and depth < 2:
                x = rng.choice(sub)
                L += ops_for(rng, x, path + '|' + x.name, comments, depth + 1)
        return L
    if d.typ not in ('int', 'float', 'bool', 'str'):
        return L
    r = rng.random()
    if d.is_list and rng.random() < 0.02:
        # big lists: every array-growth step and every line-wrap position of the printer
        n = rng.choice([16, 17, 32, 33, 64, 65, 257, 1025])
        vals = [sval(rng, d.typ) if d.typ != 'str' else hx('e%d' % k) for k in range(n)]
        for k in range(0, n, 4):          # (the variadic calls take at most four values in the driver)
            L.append('%s 0 %s %s %d %s' % ('setlist' if k == 0 else 'addlist', hp, d.typ, len(vals[k:k + 4]), ' '.join(vals[k:k + 4])))
    elif d.is_list and d.typ == 'str' and rng.random() < 0.08:
        # NULL elements (only the API can make them)
        n = rng.randint(1, 3)
        vals = [sval(rng, 'str') for _ in range(n)]
        vals[rng.randrange(n)] = '-'
        L.append('%s 0 %s str %d %s' % (rng.choice(['setlist', 'addlist']), hp, n, ' '.join(vals)))
    elif d.is_list:
        if r < 0.3:
            n = rng.randint(0, 4)
            L.append('setlist 0 %s %s %d %s' % (hp, d.typ, n, ' '.join(sval(rng, d.typ) for _ in range(n))))
        elif r < 0.6:
            n = rng.randint(1, 3)
            L.append('addlist 0 %s %s %d %s' % (hp, d.typ, n, ' '.join(sval(rng, d.typ) for _ in range(n))))
        else:
            L.append('set%s 0 %s %s %d' % (d.typ, hp, sval(rng, d.typ), rng.randint(0, 2)))
    else:
        L.append('set%s 0 %s %s' % (d.typ, hp, sval(rng, d.typ)))
    if comments and rng.random() < 0.3:
        c = rand_bytes(rng, printable=True).strip() or 'note'
        if rng.random() < 0.15:
            c = rng.choice(['a */ b', '*/', 'x*/', '*/ y', 'see /* and */ here', 'two\nlines', 'star */\nand newline', '**/', '/*/'])
        L.append('setcomment 0 %s %s' % (hp, hx(c)))
    return L


def gen_case(rng, idx):
    so = G.SchemaOpts(keystrval=True, nodefault=True, oddnames=True)
    decls = G.gen_schema(rng, so)
    comments = rng.random() < 0.3
    toks = G.gen_text(rng, decls, to={'oddkeys': True}) if rng.random() < 0.8 else []
    text = G.render(toks, rng, 'mixed' if rng.random() < 0.5 else 'plain')
    ops = gen_ops(rng, decls, comments)
    return {'decls': [d.to_json() for d in decls], 'comments': comments, 'text': text, 'ops': ops}


def gen_cases(tier, seed):
    rng = core.seeded_rng(seed, 'c05')
    n = 30000 if tier == 'quick' else 400000
    for i in range(n):
        yield gen_case(rng, i)


def script(spec):
    decls = [D.from_json(j) for j in spec['decls']]
    lines, sid = schema.emit_schema(decls)
    fl = F_COMMENTS if spec['comments'] else 0
    lines.append('init 0 %d %d' % (sid, fl))
    lines.append('parse_buf 0 %s' % hx(spec['text']))
    lines += spec['ops']
    lines.append('note S')
    lines.append('dump 0')
    lines.append('init 1 %d %d' % (sid, fl))
    lines.append('note P1')
    lines.append('print_parse 0 1')
    lines.append('dump 1')
    lines.append('init 2 %d %d' % (sid, fl))
    lines.append('note P2')
    lines.append('print_parse 1 2')
    lines.append('dump 2')
    lines.append('note P3')
    lines.append('print 2')
    return '\n'.join(lines)


def canon(tree):
    """values / titles / lengths of a dump; floats to the printed precision"""
    out = []
    for o in tree['opts']:
        if o['t'] == 'sec':
            out.append((o['n'], 'sec', [(s['title'], canon(s)) for s in o['v']]))
        elif o['t'] == 'float':
            out.append((o['n'], 'float', ['%f' % float.fromhex(x) for x in o['v']]))
        elif o['t'] in ('int', 'bool', 'str'):
            # a NULL element of a string list has no bytes; print writes it as "" and it reads back as the empty string
            out.append((o['n'], o['t'], ['' if (x is None and o['t'] == 'str' and o['f'] & F_LIST) else x for x in o['v']]))
    return out


def first_diff(a, b, path=''):
    if len(a) != len(b):
        return '%s: %d options vs %d' % (path, len(a), len(b))
    for x, y in zip(a, b):
        p = path + '/' + unhx(x[0])
        if x[0] != y[0]:
            return '%s: option name %r vs %r' % (p, unhx(x[0]), unhx(y[0]))
        if x[1] == 'sec':
            if len(x[2]) != len(y[2]):
                return '%s: %d sections vs %d after re-parse' % (p, len(x[2]), len(y[2]))
            for k, (sx, sy) in enumerate(zip(x[2], y[2])):
                if sx[0] != sy[0]:
                    return '%s[%d]: title %r became %r' % (p, k, unhx(sx[0]), unhx(sy[0]))
                d = first_diff(sx[1], sy[1], '%s[%d]' % (p, k))
                if d:
                    return d
        elif x[2] != y[2]:
            if x[1] == 'str':
                return '%s: %r became %r' % (p, [unhx(v) for v in x[2]], [unhx(v) for v in y[2]])
            return '%s: %r became %r' % (p, x[2], y[2])
    return None


def has_null_str(tree):
    for o in tree['opts']:
        if o['t'] == 'sec':
            if any(has_null_str(s) for s in o['v']):
                return True
        elif o['t'] == 'str' and o['f'] & F_LIST and any(v is None for v in o['v']):
            return True
    return False


def interesting(tree, depth=0):
    for o in tree['opts']:
        if o['t'] == 'sec':
            for s in o['v']:
                if depth >= 0 and (s['title'] and not unhx(s['title']).isalnum()):
                    return True
                if s['opts'] and depth >= 1:
                    return True
                if interesting(s, depth + 1):
                    return True
        elif o['t'] == 'str':
            for x in o['v']:
                if x and not unhx(x).isalnum():
                    return True
    return False


def classify_text_problem(s):
    tags = []
    if '$' in s:
        tags.append('dollar')
    if '"' in s:
        tags.append('dquote')
    if '\\' in s:
        tags.append('backslash')
    return '+'.join(tags) or 'other'


def judge(spec, events, death):
    v = Verdict()
    head = [e for e in events if e.get('ev') == 'r' and e.get('op') == 'parse_buf']
    if head and head[0]['rc'] != 0:
        v.skipped = True          # the generated text was not accepted: not a state of interest here (C01's business)
        v.notes['start_text_rejected'] = 1
        return v
    if death is not None:
        v.bad('crash:%s@%s' % (death['kind'], death['where']), death['text'][-600:])
        return v
    groups = {}
    cur = None
    for e in events:
        if e.get('ev') == 'note':
            cur = e['t']
            groups[cur] = []
        elif cur:
            groups[cur].append(e)
    head = [e for e in events if e.get('ev') == 'r' and e.get('op') == 'parse_buf']
    if not head or head[0]['rc'] != 0:
        v.skipped = True          # the generated text was not accepted: not a state of interest here (C01's business)
        v.notes['start_text_rejected'] = 1
        return v
    try:
        S = groups['S'][0]['tree']
        p1 = [e for e in groups['P1'] if e.get('ev') == 'printed'][0]
        r1 = [e for e in groups['P1'] if e.get('ev') == 'r' and e.get('op') == 'print_parse'][0]
        S1 = [e for e in groups['P1'] if e.get('ev') == 'dump'][0]['tree']
        p2 = [e for e in groups['P2'] if e.get('ev') == 'printed'][0]
        r2 = [e for e in groups['P2'] if e.get('ev') == 'r' and e.get('op') == 'print_parse'][0]
        p3 = [e for e in groups['P3'] if e.get('ev') == 'print'][0]
    except (KeyError, IndexError):
        v.bad('harness:short-log', 'events missing')
        return v
    if has_null_str(S):
        v.notes['states_with_null_list_elements'] = 1
    v.nontrivial = interesting(S)
    P1, P2, P3 = unhx(p1['out']), unhx(p2['out']), unhx(p3['out'])
    diags1 = [unhx(e['msg']) for e in groups['P1'] if e.get('ev') == 'diag']
    if r1['rc'] != 0:
        v.bad('reparse-rejected:' + classify_text_problem(P1), 'printed text is rejected by the parser (rc=%s, %r); text: %r' % (r1['rc'], diags1[:2], P1[:400]))
        return v
    if diags1:
        v.notes['reparse_with_diagnostics'] = 1     # presence of diagnostics on an accepted parse is C06's business
    d = first_diff(canon(S), canon(S1))
    if d:
        v.bad('reparse-differs:' + classify_text_problem(P1) + (':title' if 'title' in d else ''), 're-parsed configuration differs: %s ; printed text: %r' % (d, P1[:400]))
        return v
    if r2['rc'] != 0:
        v.bad('second-reparse-rejected', 'second printed text rejected')
        return v
    if not spec['comments'] and P2 != P1:
        v.bad('second-print-differs', 'print of the re-parsed configuration differs from the first print: %r vs %r' % (P1[:300], P2[:300]))
    if P3 != P2:
        v.bad('print-not-stable', 'a further parse-and-print cycle changes the text: %r vs %r' % (P2[:300], P3[:300]))
    v.notes['printed_bytes'] = len(P1)
    return v


def gen(tier, seed):
    return gen_cases(tier, seed)


def run(tier, seed, bindirs):
    t0 = time.time()
    res = core.explore('checks.c05', gen(tier, seed), bindirs, chunk=50)
    return core.finish(PROP, tier, seed, 'exploration', res, RULE, t0, floor=500,
                       assumptions=['excluded by the statement (not generated): function and pointer options, deprecated/drop options, TITLE without MULTI, NULL strings in lists, '
                                    'removed single sections, key=value keys outside the bare-word alphabet, annotations containing */ or newlines',
                                    'cases whose generated start text is rejected are not judged (counted as start_text_rejected)'])
