"""C16 - a context owns a private copy of its schema and shares nothing (DESIGN.md 7/C16)."""
import zlib, json, time
from vlib import core, schema
from vlib import gen as G
from vlib.core import hx, unhx, Verdict, F_LIST, F_MULTI, F_TITLE, F_COMMENTS, F_KEYSTRVAL
from vlib.schema import D
from checks import c05

PROP = 'C16'
VARIANTS = ['asan', 'plain']
RULE = ('random schemas (nested multi/titled/key=value sections, string and list defaults, no-default) with every declaration array and string overwritten with 0xA5 and freed right '
        'after cfg_init (any later read is an AddressSanitizer report); the poisoned context then receives texts that create the 1st..4th instance of nested multi sections, setter '
        'sequences, prints, and must end equal (tree and print) to an unpoisoned twin. Sharing: two contexts created from the same declarations, and two sibling section instances, '
        'receive operations (parses adding free-form keys, setters, annotations, print callbacks, validators) one at a time and the untouched one must not change (full dump and print). '
        'non-trivial: the schema has a nested section or a string/list default; distinct = hash(schema, steps)')


def retarget(line, ctx):
    """ops are written against context 0; move them to another context"""
    parts = line.split(' ')
    if parts[0] in ('failat', 'v2mode', 'note', 'pff_log'):
        return line
    loc = parts[1].split(':')
    loc[0] = str(ctx)
    parts[1] = ':'.join(loc)
    if parts[0] in ('setopt', 'opt_setmulti') and len(parts) > 2:
        l2 = parts[2].split(':')
        l2[0] = str(ctx)
        parts[2] = ':'.join(l2)
    return ' '.join(parts)


def multi_text(rng, decls, depth=0):
    """a text that opens several instances of every multi section, nested"""
    out = []
    for d in decls:
        if d.typ != 'sec' or (d.flags & F_KEYSTRVAL and not d.sub):
            continue
        n = rng.randint(2, 4) if d.is_multi else 1
        for k in range(n):
            head = d.name + (' t%d' % k if d.flags & F_TITLE else '')
            inner = multi_text(rng, d.sub or [], depth + 1) if depth < 3 else []
            leaves = []
            toks = []
            G.gen_items(rng, [x for x in (d.sub or []) if x.typ != 'sec'], toks, 1, rng.randint(0, 2), False)
            if toks:
                leaves.append(' '.join(t[1] for t in toks))
            if d.flags & F_KEYSTRVAL:
                leaves.append('dyn%d = "v%d"' % (k, k))
            out.append('%s { %s %s }' % (head, ' '.join(leaves), ' '.join(inner)))
    return out


def decorate(rng, decls, depth=0, counter=None):
    """things the macros never set but a declaration may carry: an annotation in the declaration itself; pointer options
    with a (heap) default text, also inside sections"""
    counter = counter if counter is not None else [0]
    for d in list(decls):
        if d.typ == 'sec':
            if not (d.flags & F_KEYSTRVAL):
                decorate(rng, d.sub, depth + 1, counter)
        elif d.typ in ('int', 'float', 'bool', 'str') and rng.random() < 0.25:
            d.comment = 'declared note %d' % counter[0]
            counter[0] += 1
        if d.typ in ('int', 'float', 'bool', 'str') and not d.is_list and not d.simple and rng.random() < 0.12:
            # the default given as text; empty text = the option starts without a value
            d.dparsed = rng.choice(['', '', {'int': '0x10', 'float': '2.5', 'bool': 'yes', 'str': '"text default"'}[d.typ]])
    if rng.random() < 0.5:
        counter[0] += 1
        decls.append(D('pt%d_%d' % (depth, counter[0]), 'ptr', rng.choice([0, F_LIST]) if False else 0, None, cbs='pf', dparsed='ptrdefault%d' % counter[0]))


def gen(tier, seed):
    rng = core.seeded_rng(seed, 'c16')
    n = 6000 if tier == 'quick' else 100000
    for i in range(n):
        big = rng.random() < 0.03
        so = G.SchemaOpts(keystrval=True, nodefault=True, funcs=True, depth=4 if big else 3, maxopts=18 if big else 5, null_sub=True)
        decls = G.gen_schema(rng, so)
        decorate(rng, decls)
        comments = rng.random() < 0.4
        steps = []
        for _ in range(rng.randint(2, 5)):
            r = rng.random()
            if r < 0.35:
                steps.append(['parse_buf 0 %s' % hx('\n'.join(multi_text(rng, decls)) + '\n')])
            elif r < 0.6:
                steps.append(['parse_buf 0 %s' % hx(G.render(G.gen_text(rng, decls, fancy=False)))])
            elif r < 0.9:
                ops = c05.gen_ops(rng, decls, comments)
                if ops:
                    steps.append(ops)
            else:
                steps.append(['print 0'])
        kind = 'poison' if i % 2 == 0 else 'share'
        if i % 5 == 4:
            kind = 'oom'        # a failed cfg_init / section creation must leave the caller's declarations alone
        spec = {'kind': kind, 'decls': [d.to_json() for d in decls], 'comments': comments, 'steps': steps}
        if kind == 'oom':
            spec['k'] = rng.randint(1, 80)
            spec['text'] = '\n'.join(multi_text(rng, decls)) + '\n'
        if kind == 'share':
            # callbacks / validators / print funcs registered on context 0 only
            extra = []
            for d in decls:
                if d.typ in ('int', 'float', 'str') and rng.random() < 0.4:
                    extra.append('set_print_func 0 %s 1' % hx(d.name))
                if d.typ in ('int', 'float', 'str') and rng.random() < 0.3:
                    extra.append('set_validate_func 0 %s 1' % hx(d.name))
            spec['extra'] = extra
        yield spec


def script(spec):
    if spec['kind'] == 'kvreuse':
        return kv_script(spec)
    decls = [D.from_json(j) for j in spec['decls']]
    fl = F_COMMENTS if spec['comments'] else 0
    L = []
    if spec['kind'] == 'oom':
        sid = schema.emit(decls, L, [0])
        # context 1: the k-th allocation of cfg_init fails; context 2: the k-th allocation while sections are created fails
        L += ['oomat %d' % spec['k'], 'init 1 %d %d' % (sid, fl), 'oomat 0',
              'init 2 %d %d' % (sid, fl), 'oomat %d' % spec['k'], 'parse_buf 2 %s' % hx(spec['text']), 'oomat 0',
              'note twin', 'init 0 %d %d' % (sid, fl), 'parse_buf 0 %s' % hx(spec['text']), 'dump 0',
              'init 3 %d %d' % (sid, fl), 'parse_buf 3 %s' % hx(spec['text']), 'dump 3']
        return '\n'.join(L)
    if spec['kind'] == 'poison':
        sidA = schema.emit(decls, L, [0])
        L.append('init 0 %d %d' % (sidA, fl))
        L.append('poison')
        sidB = schema.emit(decls, L, [512])
        L.append('init 1 %d %d' % (sidB, fl))
        for st in spec['steps']:
            for ctx in (0, 1):
                L.append('note step%d' % ctx)
                L += [retarget(l, ctx) for l in st]
        for ctx in (0, 1):
            L.append('note final%d' % ctx)
            L.append('dump %d' % ctx)
            L.append('print %d' % ctx)
        L.append('free 0')
        L.append('free 1')
        return '\n'.join(L)
    sid = schema.emit(decls, L, [0])
    L.append('init 0 %d %d' % (sid, fl))
    L.append('init 1 %d %d' % (sid, fl))
    L.append('add_searchpath 0 %s' % hx('.'))       # the search path is context state that every section instance refers to
    L.append('add_searchpath 0 %s' % hx('/nonexistent/dir'))
    L.append('note first')          # the declarations must serve a second cfg_init exactly as they served the first
    L.append('dump 0')
    L.append('print 0')
    L.append('note base')
    L.append('dump 1')
    L.append('print 1')
    for st in spec['steps'] + [spec.get('extra') or []]:
        if not st:
            continue
        L.append('note step')
        L += st
        L.append('note other')
        L.append('dump 1')
        L.append('print 1')
    # a plain section that is removed and then created again by a parse is a new instance: it gets the declared defaults
    single = next((d for d in decls if d.typ == 'sec' and not d.is_multi and not (d.flags & core.F_NODEFAULT) and not (d.flags & F_KEYSTRVAL)), None)
    if single is not None:
        how = 'rmnsec 0 %s 0' % hx(single.name)
        if zlib.crc32(single.name.encode()) % 2:
            how = 'opt_free_value 0:%d' % decls.index(single)        # ... or emptied with cfg_free_value()
        L += ['note recreate', 'dumpsec 1 %s' % hx(single.name), how, 'parse_buf 0 %s' % hx('%s { }\n' % single.name),
              'dumpsec 0 %s' % hx(single.name)]
    # sibling instances of multi sections inside context 0: touch instance 0 only, instance 1 must not move
    sib = first_multi_titled(decls)
    if sib is not None:
        idx, d = sib
        L.append('note sib-setup')
        L.append('addtsec 0 %s %s' % (hx(d.name), hx('sibA')))
        L.append('addtsec 0 %s %s' % (hx(d.name), hx('sibB')))
        L.append('note sib-base')
        L.append('get 0 nsec %s 0' % hx(d.name + '=sibB'))
        L.append('dumpsec 0 %s' % hx(d.name + '=sibB'))
        leaves = [x for x in (d.sub or []) if x.typ in ('int', 'float', 'bool', 'str')]
        for x in leaves[:4]:
            path = d.name + '=sibA|' + x.name
            L.append('note sib-step')
            if x.is_list:
                L.append('addlist 0 %s %s 1 %s' % (hx(path), x.typ, c05.sval(core.seeded_rng(1, x.name), x.typ)))
            else:
                L.append('set%s 0 %s %s' % (x.typ, hx(path), c05.sval(core.seeded_rng(2, x.name), x.typ)))
            L.append('setcomment 0 %s %s' % (hx(path), hx('only on A')))
            L.append('set_print_func 0 %s 1' % hx(path))
            L.append('note sib-other')
            L.append('dumpsec 0 %s' % hx(d.name + '=sibB'))
        # instance A is replaced (same title parsed again): B and the context's own state must not move
        L.append('note sib-step')
        L.append('parse_buf 0 %s' % hx('%s sibA { }\n' % d.name))
        L.append('note sib-other')
        L.append('dumpsec 0 %s' % hx(d.name + '=sibB'))
        L.append('searchpath 0 %s' % hx('no-such-file.conf'))
        if d.flags & F_KEYSTRVAL:
            L.append('note sib-step')
            L.append('parse_buf 0 %s' % hx('%s sibA { fresh_key = "1" }\n' % d.name))
            L.append('note sib-other')
            L.append('dumpsec 0 %s' % hx(d.name + '=sibB'))
    return '\n'.join(L)


def first_multi_titled(decls):
    for i, d in enumerate(decls):
        if d.typ == 'sec' and d.is_multi and d.flags & F_TITLE and not (d.flags & core.F_NO_TITLE_DUPES):
            return i, d
    return None


def groups_of(events):
    out = []
    for e in events:
        if e.get('ev') == 'note':
            out.append([e['t']])
        elif out:
            out[-1].append(e)
    return out


def interesting(decls):
    for d in decls:
        if d['typ'] == 'sec' and d['sub']:
            return True
        if d['typ'] == 'str' and d['default']:
            return True
        if d['flags'] & F_LIST and d['default']:
            return True
    return False


def judge(spec, events, death):
    if spec['kind'] == 'kvreuse':
        return kv_judge(spec, events, death)
    v = Verdict()
    v.nontrivial = interesting(spec['decls'])
    decls = [D.from_json(j) for j in spec['decls']]
    if death is not None:
        kind = death['kind']
        if spec['kind'] == 'oom' and kind == 'abort-in-init-defaults':
            v.skipped = True        # the known C18 finding (abort() when a default cannot be parsed for lack of memory) is not C16's subject
            return v
        v.bad('%s:%s@%s' % ('poisoned-schema-read' if spec['kind'] == 'poison' and 'use-after-free' in kind else
                            'declarations-freed' if spec['kind'] == 'oom' else 'crash', kind, death['where']),
              '%s case: %s' % (spec['kind'], death['text'][-700:]))
        return v
    G_ = groups_of(events)
    if spec['kind'] == 'oom':
        for g in G_:
            if g[0] == 'twin':
                r = [e for e in g[1:] if e.get('ev') == 'r' and e.get('op') in ('init', 'parse_buf')]
                d = [e for e in g[1:] if e.get('ev') == 'dump']
                v.notes['oom_cases'] = 1
                if any(e['rc'] != 0 for e in r if e['op'] == 'init') or len(d) < 2:
                    v.bad('declarations-damaged:init-fails', 'after a cfg_init / section creation that failed for lack of memory, the same declarations no longer initialise a context')
                elif json.dumps(d[0]['tree'], sort_keys=True) != json.dumps(d[1]['tree'], sort_keys=True):
                    v.bad('declarations-damaged:contexts-differ', 'two contexts built from the declarations after a failed cfg_init differ')
        return v
    if spec['kind'] == 'poison':
        rets = {0: [], 1: []}
        for g in G_:
            if g[0] in ('step0', 'step1'):
                rets[int(g[0][-1])].append([(e.get('op'), e.get('rc')) for e in g[1:] if e.get('ev') == 'r'] + [e.get('out') for e in g[1:] if e.get('ev') == 'print'])
        fin = {}
        for g in G_:
            if g[0] in ('final0', 'final1'):
                d = [e for e in g[1:] if e.get('ev') == 'dump']
                p = [e for e in g[1:] if e.get('ev') == 'print']
                fin[g[0][-1]] = (json.dumps(d[0]['tree'], sort_keys=True) if d else None, p[0]['out'] if p else None)
        if rets[0] != rets[1]:
            k = next(i for i, (a, b) in enumerate(zip(rets[0], rets[1])) if a != b)
            v.bad('poison:step-results-differ', 'step %d gives %r on the context whose declarations were freed, %r on its twin' % (k, rets[0][k][:3], rets[1][k][:3]))
        elif fin.get('0') != fin.get('1'):
            v.bad('poison:final-state-differs', 'the context whose declarations were freed ends in another state than its twin')
        v.notes['poison_cases'] = 1
        return v
    base = None
    first = None
    last_step = None
    for g in G_:
        if g[0] == 'first':
            first = snap(g)
        elif g[0] == 'base':
            base = snap(g)
            if first is not None and base != first:
                v.bad('second-init-differs', 'two contexts created one after the other from the same declarations differ right after cfg_init (the first cfg_init changed the declarations)')
        elif g[0] == 'step':
            last_step = [e.get('op') for e in g[1:] if e.get('ev') == 'r'][:3]
        elif g[0] == 'other':
            s = snap(g)
            if s != base:
                what = 'tree' if s[0] != base[0] else 'print'
                v.bad('contexts-share:%s' % what, 'operations %r on one context changed the %s of another context created from the same declarations' % (last_step, what))
                base = s
            v.notes['invariance_checks'] = v.notes.get('invariance_checks', 0) + 1
    for g in G_:
        if g[0] == 'recreate':
            d = [e for e in g[1:] if e.get('ev') == 'dumpsec']
            r = [e for e in g[1:] if e.get('ev') == 'r']
            if len(d) == 2 and d[0]['tree'] is not None and all(e['rc'] == 0 for e in r):
                v.notes['recreate_checks'] = 1
                a = schema.dump_values_only(d[0]['tree'])
                b = schema.dump_values_only(d[1]['tree']) if d[1]['tree'] is not None else None
                if a != b:
                    v.bad('recreated-section-lacks-defaults', 'a plain section removed with cfg_rmnsec and created again by the parser does not have the declared defaults / sub-sections of a fresh instance')
    sib_base = None
    for g in G_:
        if g[0] == 'sib-base':
            d = [e for e in g[1:] if e.get('ev') == 'dumpsec']
            sib_base = json.dumps(d[0]['tree'], sort_keys=True) if d else None
            # an instance created long after cfg_init has the declared sub-options and defaults (reference: the declaration itself)
            sibd = first_multi_titled(decls)
            if d and d[0]['tree'] is not None and sibd is not None:
                dd = sibd[1]
                want = schema.MSec(dd.name, dd.sub, 'sibB', bool(dd.flags & F_KEYSTRVAL))
                diffs = schema.diff_sec(want, d[0]['tree'], check_mod=False, ptr_len=False)       # (pointer defaults come from the application's parse callback: not modelled)
                v.notes['later_instance_default_checks'] = v.notes.get('later_instance_default_checks', 0) + 1
                if diffs:
                    v.bad('later-instance-defaults', 'a section instance added after cfg_init does not hold the declared sub-options / defaults: %s' % diffs[:3])
        elif g[0] == 'sib-other' and sib_base is not None:
            d = [e for e in g[1:] if e.get('ev') == 'dumpsec']
            if d and json.dumps(d[0]['tree'], sort_keys=True) != sib_base:
                v.bad('siblings-share', 'an operation on section instance sibA changed its sibling sibB')
                sib_base = json.dumps(d[0]['tree'], sort_keys=True)
            v.notes['sibling_checks'] = v.notes.get('sibling_checks', 0) + 1
    return v


def snap(g):
    d = [e for e in g[1:] if e.get('ev') == 'dump']
    p = [e for e in g[1:] if e.get('ev') == 'print']
    return (json.dumps(d[0]['tree'], sort_keys=True) if d else None, p[0]['out'] if p else None)


# ---- free-form sections that come and go (run on the plain build: the allocator really re-uses addresses there, AddressSanitizer's does not)

KV_DECLS = [D('kv', 'sec', F_MULTI | F_TITLE | F_KEYSTRVAL, sub=[]), D('one', 'sec', F_KEYSTRVAL, sub=[D('known', 'str', default='k')]), D('i', 'int', default=1)]


def kv_specs(tier, seed):
    rng = core.seeded_rng(seed, 'c16kv')
    for _ in range(300 if tier == 'quick' else 6000):
        ops = []
        live = []
        for _ in range(rng.randint(4, 14)):
            r = rng.random()
            if live and r < 0.35:
                t = rng.choice(live)
                live.remove(t)
                ops.append(['rm', t])
            else:
                t = 't%d' % rng.randint(0, 5)
                if t not in live:
                    live.append(t)
                ops.append(['add', t, ['k%d' % rng.randint(0, 9) for _ in range(rng.randint(0, 5))]])
        yield {'kind': 'kvreuse', 'ops': ops, 'decls': []}


def kv_script(spec):
    lines, sid = schema.emit_schema(KV_DECLS)
    L = list(lines) + ['init 0 %d 0' % sid]
    state = {}
    n = 0
    for op in spec['ops']:
        if op[0] == 'rm':
            L.append('rmtsec 0 %s %s' % (hx('kv'), hx(op[1])))
            state.pop(op[1], None)
        else:
            n += 1
            body = ' '.join('%s = "v%d_%s"' % (k, n, k) for k in op[2])
            L.append('parse_buf 0 %s' % hx('kv %s { %s }\none { n%d = "%d" }\n' % (op[1], body, n, n)))
            state[op[1]] = {k: 'v%d_%s' % (n, k) for k in op[2]}       # a repeated title replaces the instance
        L.append('note kvcheck')
        for t, keys in state.items():
            for k in keys:
                L.append('get 0 str %s 0' % hx('kv=%s|%s' % (t, k)))
        L.append('get 0 str %s 0' % hx('one|n%d' % n) if n else 'note none')
    return '\n'.join(L)


def kv_judge(spec, events, death):
    v = Verdict()
    v.nontrivial = True
    if death is not None:
        v.bad('crash:%s@%s:free-form-reuse' % (death['kind'], death['where']), death['text'][-500:])
        return v
    state, n = {}, 0
    want = []
    for op in spec['ops']:
        if op[0] == 'rm':
            state.pop(op[1], None)
        else:
            n += 1
            state[op[1]] = {k: 'v%d_%s' % (n, k) for k in op[2]}
        for t, keys in state.items():
            for k in keys:
                want.append(('kv=%s|%s' % (t, k), keys[k]))
        if n:
            want.append(('one|n%d' % n, str(n)))
    gets = [e for e in events if e.get('ev') == 'get']
    v.notes['free_form_lookups'] = len(gets)
    if len(gets) != len(want):
        v.bad('harness:short-log', '%d look-ups logged, %d expected' % (len(gets), len(want)))
        return v
    for (path, exp), g in zip(want, gets):
        if unhx(g['v']) != exp:
            v.bad('free-form-key-lost', 'after %r: %s reads %r, expected %r (keys of free-form section instances that are created, removed and created again)' % (spec['ops'][:6], path, unhx(g['v']), exp))
            break
    return v


def run(tier, seed, bindirs):
    t0 = time.time()
    res = core.explore('checks.c16', gen(tier, seed), bindirs, chunk=40)
    res2 = core.explore('checks.c16', kv_specs(tier, seed), bindirs, chunk=20, opts={'variant': 'plain'})
    res.merge(res2)
    return core.finish(PROP, tier, seed, 'exploration', res, RULE, t0, floor=300,
                       assumptions=['"simple" options (values stored in caller variables) are shared by design and are not generated',
                                    'the poison test relies on AddressSanitizer reporting reads of freed declaration memory (quarantine keeps it unreused within a case)'])
