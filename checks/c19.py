"""C19 - print emits each unfiltered option once, in order, at its depth (DESIGN.md 7/C19)."""
import re, time
from vlib import core, schema, treegen
from vlib.core import hx, unhx, Verdict, F_LIST, F_MULTI, F_TITLE
from vlib.schema import D

PROP = 'C19'
VARIANTS = ['asan']
RULE = ('random schemas with schema-wide unique option names, nested single/multi/titled sections to depth 3, states from generated texts; print filters (predicates over option '
        'names by hash bit) installed at a random subset of section instances incl. inner-only placements; print callbacks on a random subset of options. The printed text is scanned '
        'into (depth, name) records and compared with the tree walk: exactly the options the effective filter (own, else nearest ancestor) accepts, once, in declaration order, at their '
        'depth; unset scalars commented out; each section body equals cfg_print_indent() of that instance under the effective filter; a print callback changes exactly its own option\'s '
        'value text (sentinel count = nvalues / 1). non-trivial: a filter or callback is installed below the root or an option is unset; distinct = hash(schema, text, filters, callbacks)')

RE_OPEN = re.compile(r'^( *)([A-Za-z0-9_]+)(?: "(.*)")? \{$')
RE_CLOSE = re.compile(r'^( *)\}$')
RE_LIST = re.compile(r'^( *)([A-Za-z0-9_]+) ?= ?\{ ?(.*?) ?\}$')
RE_SCALAR = re.compile(r'^( *)(# ?)?([A-Za-z0-9_]+) ?= ?(.*)$')


def name_bit(s):
    h = 5381
    for c in s.encode('latin-1'):
        h = (h * 33 + c) & 0xffffffff
    return h % 32


def parse_print(text):
    """-> (records, error).  record: dict kind/name/depth/line + title/body/endline | commented/content"""
    lines = text.split('\n')
    if lines and lines[-1] == '':
        lines.pop()
    root = []
    stack = [root]
    opens = []
    for i, ln in enumerate(lines):
        m = RE_CLOSE.match(ln)
        if m:
            if len(stack) < 2:
                return None, 'unbalanced close at line %d' % i, lines
            if len(m.group(1)) != 2 * (len(stack) - 2):
                return None, 'closing brace at wrong depth, line %d: %r' % (i, ln), lines
            stack.pop()
            opens.pop()['endline'] = i
            continue
        m = RE_OPEN.match(ln)
        if m:
            rec = {'kind': 'sec', 'name': m.group(2), 'title': m.group(3), 'depth': len(m.group(1)) // 2, 'line': i, 'body': [], 'ind': len(m.group(1))}
            stack[-1].append(rec)
            stack.append(rec['body'])
            opens.append(rec)
        else:
            m = RE_LIST.match(ln)
            if m:
                rec = {'kind': 'list', 'name': m.group(2), 'depth': len(m.group(1)) // 2, 'line': i, 'content': m.group(3), 'ind': len(m.group(1))}
                stack[-1].append(rec)
            else:
                m = RE_SCALAR.match(ln)
                if m:
                    rec = {'kind': 'scalar', 'name': m.group(3), 'depth': len(m.group(1)) // 2, 'line': i, 'commented': bool(m.group(2)),
                           'content': m.group(4), 'ind': len(m.group(1))}
                    stack[-1].append(rec)
                else:
                    return None, 'unrecognised line %d: %r' % (i, ln), lines
        if rec['ind'] != 2 * (len(stack) - (2 if rec['kind'] == 'sec' else 1)):
            return None, 'line %d at wrong indentation: %r' % (i, ln), lines
    if len(stack) != 1:
        return None, 'unbalanced open', lines
    return root, None, lines


def expected(sec, loc, eff, filters, out_locs):
    """records expected for a section dump under filters {loc: mask}; eff = inherited mask or None"""
    if loc in filters:
        eff = filters[loc]
    recs = []
    for i, o in enumerate(sec['opts']):
        name = unhx(o['n'])
        if eff is not None and (eff >> name_bit(name)) & 1:
            continue
        oloc = '%s:%d' % (loc, i)
        if o['t'] == 'sec':
            for j, s in enumerate(o['v']):
                sl = '%s:%d.%d' % (loc, i, j)
                r = {'kind': 'sec', 'name': name, 'title': unhx(s['title']) if o['f'] & F_TITLE else None, 'loc': sl, 'eff': filters.get(sl, eff)}
                r['body'] = expected(s, sl, eff, filters, out_locs)
                recs.append(r)
        elif o['t'] in ('int', 'float', 'bool', 'str'):
            if o['f'] & F_LIST:
                recs.append({'kind': 'list', 'name': name, 'n': len(o['v']), 'loc': oloc})
            else:
                com = len(o['v']) == 0 or (o['t'] == 'str' and o['v'][0] is None)
                recs.append({'kind': 'scalar', 'name': name, 'commented': com, 'loc': oloc})
    return recs


def compare(exp, got, path, errs, pair):
    if [(r['kind'], r['name']) for r in exp] != [(r['kind'], r['name']) for r in got]:
        en = [r['name'] for r in exp]
        gn = [r['name'] for r in got]
        if sorted(en) == sorted(gn):
            kind = 'order'
        elif len(gn) != len(set(gn)) and not any(r['kind'] == 'sec' for r in got):
            kind = 'duplicate'
        elif set(gn) - set(en):
            kind = 'extra'
        else:
            kind = 'missing'
        errs.append((kind, '%s: printed options %s, expected %s' % (path, gn, en)))
        return
    for e, g in zip(exp, got):
        pair.append((e, g))
        p = path + '/' + e['name']
        if e['kind'] == 'sec':
            if e['title'] != g['title']:
                errs.append(('title', '%s: title %r printed as %r' % (p, e['title'], g['title'])))
            compare(e['body'], g['body'], p, errs, pair)
        elif e['kind'] == 'scalar':
            if e['commented'] != g['commented']:
                errs.append(('unset-marker', '%s: %s' % (p, 'unset scalar not commented out' if e['commented'] else 'set scalar printed commented out')))
        else:
            n = 0 if g['content'] == '' else g['content'].count(', ') + 1
            if n != e['n']:
                errs.append(('list-length', '%s: %d elements printed, the list holds %d' % (p, n, e['n'])))


def gen(tier, seed):
    rng = core.seeded_rng(seed, 'c19')
    n = 8000 if tier == 'quick' else 150000
    for i in range(n):
        decls = treegen.gen_decls(rng, funcs=True)
        root = treegen.gen_instances(rng, decls)
        text = '\n'.join(treegen.render_text(root)) + '\n'
        nodes = list(treegen.all_nodes(root))
        filters = []
        mode = rng.random()
        cand = nodes if mode < 0.5 else [x for x in nodes if x[1] > 0] or nodes
        k = rng.choice([0, 1, 1, 2, 3])
        slot = 0
        for nd, depth in rng.sample(cand, min(k, len(cand))):
            mask = rng.getrandbits(32) & rng.getrandbits(32) if rng.random() < 0.7 else rng.getrandbits(32)
            r = rng.random()
            if r < 0.1:
                mask = 0                # a filter that accepts everything
            elif r < 0.17:
                mask = 0xffffffff       # a filter that rejects everything
            filters.append([nd.loc, slot, mask])
            slot += 1
        pfs = []
        pfpaths = {}
        for nd, depth in nodes:
            for i2, d in enumerate(nd.decls):
                if d.typ in ('int', 'float', 'bool', 'str') and rng.random() < 0.2:
                    pfs.append('%s:%d' % (nd.loc, i2))
                    if rng.random() < 0.5:
                        # install it by path (cfg_set_print_func) instead of on the option itself
                        pfpaths[pfs[-1]] = path_of(root, pfs[-1])
        # (locator, depth of the instance, indentation asked of cfg_print_indent: its own depth, or far deeper)
        bodies = [[nd.loc, depth, depth if rng.random() < 0.6 else depth + rng.choice([1, 7, 29, 31, 32, 33, 60, 200])] for nd, depth in rng.sample(nodes, min(4, len(nodes)))]
        # function options print nothing unless they carry a print callback; then one line at the section's depth
        fpfs = []
        for nd, depth in nodes:
            for i2, d in enumerate(nd.decls):
                if d.typ == 'func' and rng.random() < 0.6:
                    fpfs.append(['%s:%d' % (nd.loc, i2), nd.loc, i2, d.name, depth])
        # a refused cfg_setopt() on scalars (unconvertible text): whatever it leaves behind internally, an option without a value still prints commented out
        refused = ['%s:%d' % (nd.loc, i2) for nd, depth in nodes for i2, d in enumerate(nd.decls)
                   if d.typ in ('int', 'float', 'bool') and not d.is_list and rng.random() < 0.3]
        # single options printed on their own (cfg_opt_print / cfg_opt_print_indent): the same line as in the full print, at the asked indentation
        cands = ['%s:%d' % (nd.loc, i2) for nd, depth in nodes for i2, d in enumerate(nd.decls) if d.typ in ('int', 'float', 'bool', 'str')]
        optprints = [[ol, rng.choice([None, 0, 1, 5, 33, 70])] for ol in rng.sample(cands, min(3, len(cands)))]
        # a third of the cases: the context already has a filter while the text is parsed (sections are created under it); it is removed or replaced afterwards
        pre = rng.getrandbits(32) | 1 if rng.random() < 0.35 else None
        yield {'decls': [d.to_json() for d in decls], 'text': text, 'filters': filters, 'pfs': pfs, 'bodies': bodies, 'fpfs': fpfs, 'pre': pre, 'optprints': optprints, 'pfpaths': pfpaths, 'refused': refused}


def path_of(root, oloc):
    """by-path name of the option at locator oloc ('0:2.1:0'), or None when a step cannot be written (title with path syntax in it)"""
    parts = oloc.split(':')[1:]
    node, steps = root, []
    for p_ in parts[:-1]:
        i, j = (int(x) for x in p_.split('.'))
        d = node.decls[i]
        child = node.kids[d.name][j]
        if not d.is_multi:
            steps.append(d.name)
        elif d.flags & F_TITLE:
            steps.append(d.name + "='" + child.title.replace('\\', '\\\\').replace("'", "\\'") + "'")
        else:
            steps.append('%s=%d' % (d.name, j) if j else d.name)      # an unqualified step means the first instance
        node = child
    steps.append(node.decls[int(parts[-1])].name)
    return '|'.join(steps)


def eff_of(loc, filters):
    """effective mask for section instance loc: own, else nearest ancestor's"""
    parts = loc.split(':')
    while parts:
        l = ':'.join(parts)
        if l in filters:
            return filters[l]
        parts.pop()
    return None


def script(spec):
    decls = [D.from_json(j) for j in spec['decls']]
    lines, sid = schema.emit_schema(decls)
    lines.append('init 0 %d 0' % sid)
    if spec.get('pre') is not None:
        lines.append('set_filter 0 6 %d' % spec['pre'])
    lines.append('parse_buf 0 %s' % hx(spec['text']))
    for ol in spec.get('refused', []):
        lines.append('setopt 0 %s %s' % (ol, hx('zz!')))
    if spec.get('pre') is not None:
        lines.append('set_filter 0 -1 0')
    lines.append('dump 0')
    lines.append('note base')
    lines.append('print 0')
    for ol, ind in spec.get('optprints', []):
        lines.append('note optprint')
        lines.append('opt_print %s' % ol if ind is None else 'opt_print_indent %s %d' % (ol, ind))
    for loc, slot, mask in spec['filters']:
        lines.append('set_filter %s %d %d' % (loc, slot, mask))
    lines.append('note filtered')
    lines.append('print 0')
    fl = {l: m for l, s, m in spec['filters']}
    slots = {l: s for l, s, m in spec['filters']}
    for loc, depth, indent in spec['bodies']:
        eff = eff_of(loc, fl)
        lines.append('note body')
        if eff is not None:
            lines.append('set_filter %s 7 %d' % (loc, eff))
        lines.append('print_indent %s %d' % (loc, indent))
        if loc in slots:
            lines.append('set_filter %s %d %d' % (loc, slots[loc], fl[loc]))
        else:
            lines.append('set_filter %s -1 0' % loc)
    for ol in spec['pfs']:
        if spec.get('pfpaths', {}).get(ol):
            lines.append('set_print_func 0 %s 1' % hx(spec['pfpaths'][ol]))
        else:
            lines.append('opt_set_print_func %s 1' % ol)
    lines.append('note callbacks')
    lines.append('print 0')
    for f in spec.get('fpfs', []):
        lines.append('opt_set_print_func %s 1' % f[0])
    lines.append('note funcs')
    lines.append('print 0')
    return '\n'.join(lines)


def find_sec(recs_pairs, loc):
    for e, g in recs_pairs:
        if e['kind'] == 'sec' and e['loc'] == loc:
            return e, g
    return None, None


def judge(spec, events, death):
    v = Verdict()
    if death is not None:
        v.bad('crash:%s@%s' % (death['kind'], death['where']), death['text'][-600:])
        return v
    pr = [e for e in events if e.get('ev') == 'r' and e.get('op') == 'parse_buf']
    if not pr or pr[0]['rc'] != 0:
        v.bad('harness:tree-text-rejected', 'generated text rejected: %r' % [unhx(e['msg']) for e in events if e.get('ev') == 'diag'][:2])
        return v
    tree = [e for e in events if e.get('ev') == 'dump'][0]['tree']
    groups = []
    for e in events:
        if e.get('ev') == 'note':
            groups.append([e['t']])
        elif groups:
            groups[-1].append(e)
    prints = {}
    bodies = []
    optouts = []
    for g in groups:
        p = [e for e in g[1:] if e.get('ev') == 'print']
        if g[0] == 'optprint':
            optouts.append(unhx(p[0]['out']) if p else None)
            continue
        if g[0] == 'body':
            bodies.append(unhx(p[0]['out']) if p else None)
        elif p:
            prints[g[0]] = unhx(p[0]['out'])
    if not {'base', 'filtered', 'callbacks'} <= set(prints):
        v.bad('harness:short-log', 'prints missing')
        return v
    filters = {l: m for l, s, m in spec['filters']}
    if spec.get('pre') is not None:
        v.notes['filter_present_while_sections_were_created'] = 1
    unset = False
    results = {}
    for which, fl in (('base', {}), ('filtered', filters)):
        recs, err, lines = parse_print(prints[which])
        if err:
            v.bad('layout:' + which, '%s print: %s' % (which, err))
            return v
        exp = expected(tree, '0', None, fl, None)
        errs, pair = [], []
        compare(exp, recs, '', errs, pair)
        for kind, msg in errs[:3]:
            where = 'nofilter' if which == 'base' else ('inherit' if any(l != '0' for l in fl) else 'rootfilter')
            v.bad('%s:%s' % (kind, where), '%s print: %s' % (which, msg))
        results[which] = (recs, lines, pair, errs)
        if any(e['kind'] == 'scalar' and e['commented'] for e, g in pair):
            unset = True
    if v.viol:
        return v
    # (2b) one option printed on its own
    _, blines, bpair, _ = results['base']
    for (ol, ind), out in zip(spec.get('optprints', []), optouts):
        rec = next(((e, g) for e, g in bpair if e.get('loc') == ol and e['kind'] in ('scalar', 'list')), None)
        if rec is None or out is None:
            continue
        want = '  ' * (ind or 0) + blines[rec[1]['line']].lstrip(' ') + '\n'
        v.notes['single_option_prints'] = v.notes.get('single_option_prints', 0) + 1
        if out != want:
            v.bad('option-print:%s' % ('plain' if ind is None else 'indent'), 'option %s printed on its own (%s) gives %r, its line in the full print is %r' % (
                rec[0]['name'], 'cfg_opt_print' if ind is None else 'cfg_opt_print_indent %d' % ind, out[:120], want[:120]))
    # (3) section bodies equal cfg_print_indent of the instance under the effective filter
    recs, lines, pair, _ = results['filtered']
    for (loc, depth, indent), body in zip(spec['bodies'], bodies):
        if body is None:
            continue
        if loc == '0':
            want = prints['filtered']
        else:
            e, g = find_sec(pair, loc)
            if e is None:
                continue          # the section itself is filtered out (or an ancestor is)
            want = '\n'.join(lines[g['line'] + 1:g['endline']])
            want = want + '\n' if want else ''
        if indent != depth:
            # asked for a deeper indentation: every line moves right by two blanks per extra level (the generated values hold no newlines)
            pad = '  ' * (indent - depth)
            want = ''.join(pad + l + '\n' for l in want.split('\n')[:-1])
            v.notes['bodies_at_other_indent'] = v.notes.get('bodies_at_other_indent', 0) + 1
        v.notes['bodies_compared'] = v.notes.get('bodies_compared', 0) + 1
        if body != want:
            v.bad('body-differs:%s' % ('own-filter' if loc in filters else 'inherited' if eff_of(loc, filters) is not None else 'nofilter'),
                  'section %s: body in the full print %r differs from cfg_print_indent of that section under the effective filter %r' % (loc, want[:200], body[:200]))
    # (5) print callbacks: only the value text of the callback options may change (judged structurally, not by spelling)
    pfs = set(spec['pfs'])
    ncb = 0
    cb_lines = prints['callbacks'].split('\n')
    if cb_lines and cb_lines[-1] == '':
        cb_lines.pop()
    if len(cb_lines) != len(lines):
        v.bad('callback', 'print with callbacks has %d lines, without %d' % (len(cb_lines), len(lines)))
    else:
        special = {}
        for e, g in pair:
            if e['kind'] in ('scalar', 'list') and e['loc'] in pfs:
                special[g['line']] = (e, g)
        for i, (a, b) in enumerate(zip(lines, cb_lines)):
            if i not in special:
                if a != b:
                    v.bad('callback', 'installing print callbacks changed an unrelated line: %r -> %r' % (a, b))
                    break
                continue
            e, g = special[i]
            ncb += 1
            m = (RE_SCALAR if e['kind'] == 'scalar' else RE_LIST).match(b)
            if e['kind'] == 'scalar':
                want = '<<%s:0>>' % e['name']
                ok = m and len(m.group(1)) == g['ind'] and bool(m.group(2)) == e['commented'] and m.group(3) == e['name'] and m.group(4) == want
            else:
                want = [('<<%s:%d>>' % (e['name'], k)) for k in range(e['n'])]
                ok = m and len(m.group(1)) == g['ind'] and m.group(2) == e['name'] and [x.strip() for x in m.group(3).split(',') if x.strip()] == want
            if not ok:
                v.bad('callback', 'option %s with a print callback is printed as %r; expected its value text to be %r (and nothing else to change)' % (e['name'], b, want))
                break
    v.notes['callback_options'] = ncb
    v.nontrivial = unset or any(l != '0' for l in filters) or ncb > 0
    # (6) function options with a print callback: exactly one more line each, in declaration order, at the depth of their section instance
    if spec.get('fpfs') and 'funcs' in prints and len(cb_lines) == len(lines):
        ins = []
        for oloc, sloc, idx, name, depth in spec['fpfs']:
            eff = eff_of(sloc, filters)
            if eff is not None and (eff >> name_bit(name)) & 1:
                continue            # rejected by the effective filter
            if sloc == '0':
                end = len(lines)
            else:
                e, g = find_sec(pair, sloc)
                if e is None:
                    continue        # the section instance itself is not printed
                end = g['endline']
            pos = end
            for e, g in pair:
                l = e['loc']
                par, _, last = l.rpartition(':')
                if par == sloc and int(last.split('.')[0]) > idx:
                    pos = min(pos, g['line'])
            ins.append((pos, idx, '  ' * depth + '<<%s:0>>' % name))
        ins.sort()
        want, k = [], 0
        for i in range(len(cb_lines) + 1):
            while k < len(ins) and ins[k][0] == i:
                want.append(ins[k][2])
                k += 1
            if i < len(cb_lines):
                want.append(cb_lines[i])
        got = prints['funcs'].split('\n')
        if got and got[-1] == '':
            got.pop()
        v.notes['function_option_callbacks'] = len(ins)
        if got != want:
            d = next((i for i, (a, b) in enumerate(zip(got, want)) if a != b), min(len(got), len(want)))
            v.bad('callback:function-option', 'print callbacks on function options %r: line %d is %r, expected %r (one line per option, in declaration order, at the depth of its section)' % (
                [f[3] for f in spec['fpfs']], d, got[d] if d < len(got) else None, want[d] if d < len(want) else None))
    return v


def run(tier, seed, bindirs):
    t0 = time.time()
    res = core.explore('checks.c19', gen(tier, seed), bindirs, chunk=50)
    return core.finish(PROP, tier, seed, 'exploration', res, RULE, t0, floor=300,
                       assumptions=['string values and titles are drawn from an alphabet without quotes, braces, =, # and newlines so that the printed text can be scanned line by line (escaping is C05\'s business)',
                                    'function and pointer options are not generated'])
