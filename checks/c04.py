"""C04 - text-to-number/boolean conversion is exact or rejected (DESIGN.md 7/C04)."""
import itertools, re, time
from vlib import core, model_num
from vlib.core import hx, unhx, opt_line, Verdict

PROP = 'C04'
VARIANTS = ['asan']
ALPHA = '0178 9afxb-+.e'.replace(' ', '') + ' '
ERR = (0, 34, 22)
RULE = ('every token of length <= N over the numeral alphabet {0 1 7 8 9 a f x b - + . e space} plus boundary numerals '
        '(LONG_MIN/LONG_MAX in four radices, DBL_MAX neighbours, 400-digit numerals) and all case variants / near misses of the '
        'boolean words; each through cfg_parse_buf (double-quoted), cfg_setmulti and cfg_setopt with errno preset to 0/ERANGE/EINVAL; '
        'oracle = model_num (from the statement). non-trivial: the token is judged (not in an unspecified class) and is not a plain '
        'decimal integer; distinct = distinct token x kind')


def quote(tok):
    return '"' + tok.replace('\\', '\\\\').replace('"', '\\"') + '"'


def routes(kind):
    name = {'int': 'i', 'float': 'f', 'bool': 'b'}[kind]
    idx = {'int': 0, 'float': 1, 'bool': 2}[kind]
    r = [('parse', 0), ('parse', 34)]
    r += [('setmulti', e) for e in ERR]
    r += [('setopt', e) for e in ERR]
    if kind != 'bool':
        # the same conversions into "simple" options (values stored in caller variables)
        r += [('simple-setmulti', e) for e in ERR] + [('simple-setopt', e) for e in (0, 34)] + [('simple-parse', 0)]
    return name, idx, r


def script(spec):
    tok = spec['t']
    L = ['schema 0',
         opt_line('i', 'int', dnum=7777),
         opt_line('f', 'float', dfp=7777.5),
         opt_line('b', 'bool', dbool=0),
         opt_line('si', 'int', dnum=7777, simple=1),
         opt_line('sf', 'float', dfp=7777.5, simple=1),
         'endschema', 'init 0 0 0']
    for kind in spec['k']:
        name, idx, rts = routes(kind)
        for route, eno in rts:
            if kind == 'int':
                L.append('opt_setint 0:0 7777 0')
                L.append('opt_setint 0:3 7777 0')
            elif kind == 'float':
                L.append('opt_setfloat 0:1 7777.5 0')
                L.append('opt_setfloat 0:4 7777.5 0')
            if route.startswith('simple-'):
                sname, sidx = ('si', 3) if kind == 'int' else ('sf', 4)
                if route == 'simple-parse':
                    L.append('parse_buf_errno 0 %s %d' % (hx('%s = %s' % (sname, quote(tok))), eno))
                elif route == 'simple-setmulti':
                    L.append('setmulti_errno 0 %s %s %d' % (hx(sname), hx(tok), eno))
                else:
                    L.append('setopt 0 0:%d %s %d' % (sidx, hx(tok), eno))
                L.append('get 0 %s %s 0' % (kind, hx(sname)))
                continue
            if route == 'parse':
                L.append('parse_buf_errno 0 %s %d' % (hx('%s = %s' % (name, quote(tok))), eno))
            elif route == 'setmulti':
                L.append('setmulti_errno 0 %s %s %d' % (hx(name), hx(tok), eno))
            else:
                L.append('setopt 0 0:%d %s %d' % (idx, hx(tok), eno))
            L.append('get 0 %s %s 0' % (kind, hx(name)))
        if kind == 'bool':
            L.append('parse_boolean %s' % hx(tok))
    return '\n'.join(L)


def shape(tok):
    out = []
    for c in tok:
        if c in '1234567':
            k = '7'
        elif c in '89':
            k = '9'
        elif c in 'acdfACDF':
            k = 'a'
        elif c in ' \t\n':
            k = '_'
        else:
            k = c
        if not out or out[-1] != k:
            out.append(k)
    return ''.join(out)[:16]


def judge(spec, events, death):
    v = Verdict()
    tok = spec['t']
    if core.death_violation(v, death):
        return v
    evs = [e for e in events if e.get('ev') == 'get' or
           (e.get('ev') == 'r' and e['op'] != 'init' and not e['op'].startswith('opt_set'))]
    pos = 0
    judged_any = False
    for kind in spec['k']:
        name, idx, rts = routes(kind)
        exp = {'int': model_num.conv_int, 'float': model_num.conv_float, 'bool': model_num.conv_bool}[kind](tok)
        outcomes = []
        for route, eno in rts:
            if pos + 1 >= len(evs):
                v.bad('harness:short-log', 'events missing for %r' % tok)
                return v
            r, g = evs[pos], evs[pos + 1]
            pos += 2
            outcomes.append((route, eno, r['rc'], g['v']))
        if kind == 'bool':
            pb = evs[pos]
            pos += 1
            outcomes.append(('parse_boolean', 0, 0 if pb['rc'] in (0, 1) else 1, pb['rc'] if pb['rc'] in (0, 1) else None))
        if exp[0] == 'unspec':
            v.notes.setdefault('unspecified_classes', set()).add(kind + ':' + exp[1])
            continue
        judged_any = True
        base_ok = None
        for route, eno, rc, val in outcomes:
            accepted = rc == 0
            if kind == 'float' and val is not None and accepted:
                val = float.fromhex(val)
            good = (exp[0] == 'ok' and accepted and val == exp[1]) or (exp[0] == 'reject' and not accepted)
            if eno == 0:
                base_ok = good if base_ok is None else (base_ok and good)
            if good:
                continue
            if eno != 0 and [o for o in outcomes if o[0] == route and o[1] == 0 and (o[2] == 0) != accepted]:
                key = '%s:stale-errno:%s' % (kind, route)
            else:
                what = ('accepted-as-%s' % ('wrong-value' if exp[0] == 'ok' else 'number')) if accepted else 'rejected-valid'
                key = '%s:%s:%s:%s' % (kind, what, 'parse' if route.endswith('parse') else 'simple-setter' if route.startswith('simple') else 'setter', shape(tok))
            v.bad(key, 'token %r as %s via %s (errno=%d): expected %s, got rc=%s value=%r' % (tok, kind, route, eno, exp, rc, val))
    if not judged_any:
        v.skipped = True
    else:
        v.nontrivial = not re.match(r'^[1-9][0-9]*$', tok)
    return v


def boundary_tokens():
    LMAX, LMIN = 2 ** 63 - 1, -2 ** 63
    out = []
    for n in (LMAX - 1, LMAX, LMAX + 1, 2 ** 64 - 1, 2 ** 64, 2 ** 64 + 5, 2 ** 32, 2 ** 31 - 1):
        out += [str(n), '+' + str(n), '-' + str(n), hex(n), '0' + oct(n)[2:], '0b' + bin(n)[2:]]
    out += [str(LMIN), str(LMIN - 1), str(LMIN + 1)]
    out += ['0b' + '0' * 70 + '1', '0b' + '0' * 64 + '101', '0b' + '0' * 200, '0b' + '0' * 2 + '1' * 63, '0b' + '0' * 2 + '1' * 64, '0x' + '0' * 40 + 'ff', '0' * 50 + '17', '0' * 70,
            '1.' + '0' * 80, '0.' + '0' * 70 + '1', '1' + '0' * 70 + '.5', '0' * 65 + '1.5', '1e' + '0' * 70 + '2', '-' + '0' * 66 + '.25',
            '9' * 400, '-' + '9' * 400, '0x' + 'f' * 100, '0' + '7' * 200, '0b' + '1' * 64, '0b' + '1' * 63, '1' + '0' * 308, '1' + '0' * 309,
            '1.7976931348623157e308', '1.7976931348623158e308', '1.7976931348623159e308', '1.8e308', '-1.8e308', '1e308', '1e309',
            '-1e309', '1e400', '0.' + '0' * 400 + '1', '1e-400', '4.9e-324', '2.2250738585072014e-308', '2.2250738585072011e-308',
            '0.1', '.5', '5.', '5.e3', '.e3', '.', 'e5', '1e', '1e+', '1e+5', '1E5', '1e5.0', '1..0', '1.0.0', '--1', '+-1', '1-', '1+',
            '0x1p3', 'inf', '-inf', 'nan', 'infinity', 'NaN', 'INF', '0x', '0b', '0x-5', '0x+5', '0x 5', '0b-1', '0b 1', '0 7', '0-7', '0+7',
            '0x0x5', '0b0b1', '00x5', '0X5', '0B1', '08', '09', '078', '0o7', '12z', 'z12', '1 2', '1\t', '\t1', '1\n', '\n1', ' 1', '1 ',
            '0', '00', '000', '-0', '+0', '-00', '7', '-7', '+7', '0x7fffffffffffffff', '0x8000000000000000', '-0x8000000000000000',
            '0777777777777777777777', '01000000000000000000000', '1,5', '1_000', '١', '1\xb2', 'true', 'x', '']
    return out


def bool_tokens():
    out = set()
    for w in ('true', 'yes', 'on', 'false', 'no', 'off'):
        for bits in itertools.product((0, 1), repeat=len(w)):
            out.add(''.join(c.upper() if b else c for c, b in zip(w, bits)))
        for extra in (w[:-1], w + w[-1], w + ' ', ' ' + w, w + '\n', '\t' + w, w[0], w + '0', '0' + w, w + 's', w.capitalize() + '!'):
            out.add(extra)
    out |= {'', '0', '1', 't', 'f', 'y', 'n', 'nope', 'oui', 'enable', 'disabled', 'TRUE ', 'o', 'of', 'onn', 'offf', 'tru', 'fals',
            'yess', 'noo', 'truefalse', 'true,false', '-1', '2', 'null', 'nil', 'ÿes', 'Ýes', 'ｏｎ'.encode('utf-8').decode('latin-1')}
    return sorted(out)


def gen(tier, seed):
    maxlen = 4 if tier == 'quick' else 5
    rng = core.seeded_rng(seed, 'c04')
    for n in range(0, maxlen + 1):
        for t in itertools.product(ALPHA, repeat=n):
            yield {'t': ''.join(t), 'k': ['int', 'float']}
    for t in boundary_tokens():
        try:
            t.encode('latin-1')
        except UnicodeEncodeError:
            t = t.encode('utf-8').decode('latin-1')
        yield {'t': t, 'k': ['int', 'float']}
    for t in bool_tokens():
        yield {'t': t, 'k': ['bool']}
    # random longer tokens
    nrand = 3000 if tier == 'quick' else 60000
    for _ in range(nrand):
        n = rng.randint(maxlen + 1, 24)
        yield {'t': ''.join(rng.choice(ALPHA) for _ in range(n)), 'k': ['int', 'float']}


def run(tier, seed, bindirs):
    t0 = time.time()
    res = core.explore('checks.c04', gen(tier, seed), bindirs, chunk=400)
    return core.finish(PROP, tier, seed, 'exploration', res, RULE, t0, floor=10000,
                       assumptions=['the C locale is in force (driver sets LC_ALL=C)',
                                    'unspecified and not judged: sign+radix prefix, leading white space, inf/nan spellings, hex floats, denormal underflow',
                                    'long is 64 bit on this platform'],
                       exhaustive=False,
                       more={'exhaustive_part': 'all tokens of length <= %d over a %d-symbol alphabet' % (4 if tier == 'quick' else 5, len(ALPHA))})
