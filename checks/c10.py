"""C10 - a rejected update leaves the option exactly as it was (DESIGN.md 7/C10)."""
import json, time
from vlib import core, schema, model_store
from vlib.core import hx, fhex, Verdict, F_LIST, F_MULTI, F_TITLE, F_NODEFAULT, F_COMMENTS
from vlib.schema import D

PROP = 'C10'
VARIANTS = ['asan']
TYPES = ['int', 'float', 'bool', 'str']
DEF = {'int': 5, 'float': 1.5, 'bool': 1, 'str': 'dflt'}
DEFL = {'int': [1, 2], 'float': [0.5, 2.0], 'bool': [1, 0], 'str': ['a', 'b']}
GOOD = {'ptr': ['obj1', 'obj2', 'obj3', 'obj4'], 'int': ['7', '8', '9', '10'], 'float': ['0.25', '3', '4.5', '1e3'], 'bool': ['yes', 'off', 'true', 'no'], 'str': ['p', 'q', 'r', 's']}
GOODV = {'int': [7, 8, 9, 10], 'float': [0.25, 3.0, 4.5, 1e3], 'bool': [1, 0, 1, 0], 'str': ['p', 'q', 'r', 's']}
BAD = {'int': 'zz', 'float': '1.2.3', 'bool': 'maybe'}


def decls():
    out = []
    for t in TYPES:
        w = 'w' if t != 'bool' else ''
        out.append(D(t + 's', t, 0, DEF[t], cbs=w))
        out.append(D(t + 'l', t, F_LIST, DEFL[t], cbs=w))
        out.append(D(t + 'sp', t, 0, DEF[t], cbs='p'))
        out.append(D(t + 'lp', t, F_LIST, None, cbs='p'))
        out.append(D(t + 'n', t, F_NODEFAULT))
        out.append(D(t + 'v', t, simple=True))      # "simple" option: the value is the application's own variable
    out.append(D('ptrs', 'ptr', 0, None, cbs='pf'))
    out.append(D('ptrl', 'ptr', F_LIST, None, cbs='pf'))
    out.append(D('sec', 'sec', F_MULTI | F_TITLE, sub=[D('x', 'int', default=9), D('xs', 'str', default='k')]))
    out.append(D('usec', 'sec', F_MULTI | F_TITLE | core.F_NO_TITLE_DUPES, sub=[D('x', 'int', default=9), D('xs', 'str', default='k')]))
    out.append(D('msec', 'sec', F_MULTI, sub=[D('y', 'int', default=0)]))
    out.append(D('one', 'sec', 0, sub=[D('z', 'int', default=1)]))
    return out


DECLS = decls()
NAMES = [d.name for d in DECLS]
BYNAME = {d.name: d for d in DECLS}

RULE = ('complete enumeration of option kind (int/float/bool/str x scalar/list x with/without parse callback/pre-set validator, no-default, "simple") x '
        'prepared state (pristine, explicitly set, emptied, annotated, annotated+set, list of 1/3/4, parsed with annotation) x refusing call '
        '(cfg_setmulti with the bad element at every position, cfg_setopt with bad text or failing parse callback, setter vetoed by validcb2, '
        'wrong-type setter, index>0 on a scalar, cfg_addtsec of an existing title, cfg_rmtsec/rmnsec/rmsec of a missing section); oracle: the call '
        'reports failure and the full-tree dump (values, order, annotation, RESET/MODIFIED/COMMENTS bits) is identical before and after. '
        'every case is non-trivial (a refused call on a prepared state); distinct = (option, state, call)')


def optloc(name):
    return '0:%d' % NAMES.index(name)


def val_tok(t, v):
    return fhex(v) if t == 'float' else hx(v) if t == 'str' else str(int(v))


def prep_ops(name, state):
    """script lines that bring option `name` into `state`"""
    d = BYNAME[name]
    t = d.typ
    L = []
    if t == 'ptr':
        # pointer values only come from the parse callback: build the states through the text-taking calls
        if state in ('set', 'annotated+set', 'list1', 'list4', 'parsed', 'parsed+append'):
            n = {'list1': 1, 'list4': 4}.get(state, 2 if d.is_list else 1)
            if state.startswith('parsed'):
                L.append('parse_buf 0 %s' % hx('%s = %s\n' % (name, ('{' + ', '.join(GOOD[t][:n]) + '}') if d.is_list else GOOD[t][0])))
            else:
                L.append('setmulti 0 %s %d %s' % (hx(name), n, ' '.join(hx(x) for x in GOOD[t][:n])))
        if 'annotated' in state:
            L.append('opt_setcomment %s %s' % (optloc(name), hx('a note')))
        return L
    if state == 'pristine':
        pass
    elif state == 'set':
        if d.is_list:
            L.append('setlist 0 %s %s 3 %s' % (hx(name), t, ' '.join(val_tok(t, v) for v in GOODV[t][:3])))
        else:
            L.append('set%s 0 %s %s' % (t, hx(name), val_tok(t, GOODV[t][0])))
    elif state == 'emptied':
        L.append('setlist 0 %s %s 0' % (hx(name), t))
    elif state == 'annotated':
        L.append('opt_setcomment %s %s' % (optloc(name), hx('a note')))
    elif state == 'annotated+set':
        L += prep_ops(name, 'set')
        L.append('opt_setcomment %s %s' % (optloc(name), hx('a note')))
    elif state == 'list1':
        L.append('setlist 0 %s %s 1 %s' % (hx(name), t, val_tok(t, GOODV[t][0])))
    elif state == 'list4':
        L.append('setlist 0 %s %s 4 %s' % (hx(name), t, ' '.join(val_tok(t, v) for v in GOODV[t])))
    elif state == 'parsed':
        if d.is_list:
            L.append('parse_buf 0 %s' % hx('/* from file */\n%s = {%s}\n' % (name, ', '.join(GOOD[t][:2]))))
        else:
            L.append('parse_buf 0 %s' % hx('# from file\n%s = %s\n' % (name, GOOD[t][1])))
    elif state == 'parsed+append':
        L.append('parse_buf 0 %s' % hx('%s += {%s}\n' % (name, GOOD[t][2])))
    return L


def states_for(d):
    if d.typ == 'sec':
        return ['empty', 'two', 'parsed']
    if d.typ == 'ptr':
        return ['pristine', 'set', 'annotated', 'annotated+set', 'parsed'] + (['list1', 'list4'] if d.is_list else [])
    if d.simple:
        return ['pristine', 'set', 'annotated+set', 'parsed']
    if d.flags & F_NODEFAULT:
        return ['pristine', 'set', 'annotated']
    if d.is_list:
        return ['pristine', 'set', 'emptied', 'annotated', 'annotated+set', 'list1', 'list4', 'parsed', 'parsed+append']
    return ['pristine', 'set', 'annotated', 'annotated+set', 'parsed']


def calls_for(d):
    """refusing calls for option d: list of (tag, [script lines])"""
    t, name = d.typ, d.name
    C = []
    hasp = 'p' in d.cbs
    if d.simple:
        wrong = 'str' if t != 'str' else 'int'
        return [('setter:wrong-type', ['set%s 0 %s %s' % (wrong, hx(name), val_tok(wrong, GOODV[wrong][0]))]),
                ('opt_setter:wrong-type', ['opt_set%s %s %s 0' % (wrong, optloc(name), val_tok(wrong, GOODV[wrong][0]))]),
                ('setter:index1', ['set%s 0 %s %s 1' % (t, hx(name), val_tok(t, GOODV[t][1]))]),
                ('opt_setter:index1', ['opt_set%s %s %s 1' % (t, optloc(name), val_tok(t, GOODV[t][1]))]),
                ('opt_setter:index7', ['opt_set%s %s %s 7' % (t, optloc(name), val_tok(t, GOODV[t][2]))])]
    if t != 'sec':
        ns = (1, 2, 3, 4) if d.is_list else (1,)
        for n in ns:
            for k in range(n):
                if hasp:
                    vals = GOOD[t][:n]
                    C.append(('setmulti:cb-fail@%d/%d' % (k, n), ['failat %d' % (k + 1), 'setmulti 0 %s %d %s' % (hx(name), n, ' '.join(hx(v) for v in vals)), 'failat 0']))
                elif t in BAD:
                    vals = list(GOOD[t][:n])
                    vals[k] = BAD[t]
                    C.append(('setmulti:bad@%d/%d' % (k, n), ['setmulti 0 %s %d %s' % (hx(name), n, ' '.join(hx(v) for v in vals))]))
        if not d.is_list and not hasp and t in BAD:
            # two values for a scalar, one of them unconvertible: refused whatever a clean two-value call would do
            for k in range(2):
                vals = list(GOOD[t][:2])
                vals[k] = BAD[t]
                C.append(('setmulti:bad@%d/2:scalar' % k, ['setmulti 0 %s 2 %s' % (hx(name), ' '.join(hx(v) for v in vals))]))
        if hasp:
            C.append(('setopt:cb-fail', ['failat 1', 'setopt 0 %s %s' % (optloc(name), hx(GOOD[t][0])), 'failat 0']))
        elif t in BAD:
            C.append(('setopt:bad', ['setopt 0 %s %s' % (optloc(name), hx(BAD[t]))]))
            C.append(('setopt:empty', ['setopt 0 %s %s' % (optloc(name), hx(''))]))
        if t == 'str' and not hasp:
            C.append(('setopt:null-text', ['setopt 0 %s -' % optloc(name)]))
        if 'w' in d.cbs:
            C.append(('setter:veto', ['v2mode 1', 'set%s 0 %s %s' % (t, hx(name), val_tok(t, GOODV[t][3])), 'v2mode 0']))
            if d.is_list:
                # bulk list calls under a vetoing validator: whether they consult it is the library's business, but a refusal must be all-or-nothing
                C.append(('maybe:setlist:veto', ['v2mode 1', 'setlist 0 %s %s 3 %s' % (hx(name), t, ' '.join(val_tok(t, v) for v in GOODV[t][:3])), 'v2mode 0']))
                C.append(('maybe:addlist:veto', ['v2mode 1', 'addlist 0 %s %s 2 %s' % (hx(name), t, ' '.join(val_tok(t, v) for v in GOODV[t][:2])), 'v2mode 0']))
                C.append(('setter:veto@1', ['v2mode 1', 'set%s 0 %s %s 1' % (t, hx(name), val_tok(t, GOODV[t][3])), 'v2mode 0']))
                C.append(('setter:veto@append', ['v2mode 1', 'set%s 0 %s %s 9' % (t, hx(name), val_tok(t, GOODV[t][3])), 'v2mode 0']))
        if t == 'ptr':
            C.append(('setter:wrong-type', ['setint 0 %s 5' % hx(name)]))
            C.append(('opt_setter:wrong-type', ['opt_setstr %s %s 0' % (optloc(name), hx('x'))]))
            C.append(('setmulti:zero-values', ['setmulti 0 %s 0' % hx(name)]))
            return C
        wrong = 'str' if t != 'str' else 'int'
        C.append(('setter:wrong-type', ['set%s 0 %s %s' % (wrong, hx(name), val_tok(wrong, GOODV[wrong][0]))]))
        C.append(('opt_setter:wrong-type', ['opt_set%s %s %s 0' % (wrong, optloc(name), val_tok(wrong, GOODV[wrong][0]))]))
        if not d.is_list:
            C.append(('setter:index1', ['set%s 0 %s %s 1' % (t, hx(name), val_tok(t, GOODV[t][0]))]))
            C.append(('opt_setter:index1', ['opt_set%s %s %s 1' % (t, optloc(name), val_tok(t, GOODV[t][0]))]))
        else:
            C.append(('setlist:on-wrong-name', ['setlist 0 %s %s 1 %s' % (hx(name + '_nosuch'), t, val_tok(t, GOODV[t][0]))]))
        C.append(('setmulti:zero-values', ['setmulti 0 %s 0' % hx(name)]))
    else:
        if d.flags & F_TITLE:
            C.append(('addtsec:existing', ['addtsec 0 %s %s' % (hx(name), hx('t1'))]))
            C.append(('rmtsec:absent', ['rmtsec 0 %s %s' % (hx(name), hx('nope'))]))
            C.append(('rmsec:absent-title', ['rmsec 0 %s' % hx(name + '=nope')]))
            C.append(('opt_rmtsec:absent', ['opt_rmtsec %s %s' % (optloc(name), hx('nope'))]))
            C.append(('addtsec:null-title', ['addtsec 0 %s -' % hx(name)]))
            C.append(('setopt:null-title', ['setopt 0 %s -' % optloc(name)]))
            if d.flags & core.F_NO_TITLE_DUPES:
                C.append(('setopt:duplicate-title', ['setopt 0 %s %s' % (optloc(name), hx('t1'))]))
                C.append(('parse:duplicate-title', ['parse_buf 0 %s' % hx('%s t2 { x = 77 }\n' % name)]))
        else:
            C.append(('rmsec:absent-index', ['rmsec 0 %s' % hx(name + '=99')]))
            C.append(('rmtsec:untitled', ['rmtsec 0 %s %s' % (hx(name), hx('t1'))]))
        C.append(('rmnsec:out-of-range', ['rmnsec 0 %s 99' % hx(name)]))
        C.append(('opt_rmnsec:out-of-range', ['opt_rmnsec %s 99' % optloc(name)]))
        C.append(('setter:on-section', ['setint 0 %s 1' % hx(name)]))
    return C


def sec_prep(name, state):
    d = BYNAME[name]
    if state == 'empty':
        return ['rmnsec 0 %s 0' % hx(name)] if not d.is_multi else []
    if state == 'two':
        if d.flags & F_TITLE:
            return ['addtsec 0 %s %s' % (hx(name), hx('t1')), 'addtsec 0 %s %s' % (hx(name), hx('t2')),
                    'setint 0 %s 3' % hx(name + '=t2|x'), 'setcomment 0 %s %s' % (hx(name + '=t1|xs'), hx('inner note'))]
        if d.is_multi:
            return ['parse_buf 0 %s' % hx('%s { y = 1 }\n%s { y = 2 }\n' % (name, name))]
        return ['setint 0 %s 3' % hx(name + '|z')]
    if state == 'parsed':
        if d.flags & F_TITLE:
            return ['parse_buf 0 %s' % hx('%s t1 { x = 4 }\n%s t0 { }\n' % (name, name))]
        if d.is_multi:
            return ['parse_buf 0 %s' % hx('%s { }\n' % name)]
        return ['parse_buf 0 %s' % hx('%s { z = 8 }\n' % name)]
    return []


def all_specs():
    for d in DECLS:
        for st in states_for(d):
            for tag, _ in calls_for(d):
                if st == 'empty' and tag in ('addtsec:existing', 'addtsec:null-title', 'setopt:null-title', 'setopt:duplicate-title', 'parse:duplicate-title'):
                    continue
                if st == 'parsed' and tag == 'parse:duplicate-title':
                    continue
                yield {'opt': d.name, 'state': st, 'call': tag}


def script(spec):
    d = BYNAME[spec['opt']]
    lines, sid = schema.emit_schema(DECLS)
    lines.append('init 0 %d %d' % (sid, F_COMMENTS))
    if spec['state'] == 'random':
        lines += spec['prep']
    else:
        lines += sec_prep(d.name, spec['state']) if d.typ == 'sec' else prep_ops(d.name, spec['state'])
    lines.append('note before')
    lines.append('dump 0')
    call = dict(calls_for(d))[spec['call']]
    lines += call
    lines.append('note after')
    lines.append('dump 0')
    return '\n'.join(lines)


def judge(spec, events, death):
    v = Verdict()
    key = '%s:%s' % (spec['call'], 'list' if BYNAME[spec['opt']].is_list else BYNAME[spec['opt']].typ if BYNAME[spec['opt']].typ == 'sec' else 'scalar')
    if death is not None:
        v.bad('crash:%s@%s:%s' % (death['kind'], death['where'], key), '%r: %s' % (spec, death['text'][-600:]))
        return v
    # split at the notes
    i0 = next((i for i, e in enumerate(events) if e.get('ev') == 'note' and e.get('t') == 'before'), None)
    i1 = next((i for i, e in enumerate(events) if e.get('ev') == 'note' and e.get('t') == 'after'), None)
    if i0 is None or i1 is None:
        v.bad('harness:short-log', 'notes missing')
        return v
    before = events[i0 + 1]
    after = events[i1 + 1]
    rets = [e for e in events[i0 + 2:i1] if e.get('ev') == 'r']
    prep_r = [e for e in events[:i0] if e.get('ev') == 'r' and e.get('op') not in ('init',)]
    if spec['state'] != 'random' and any(e['rc'] != 0 for e in prep_r):
        v.bad('harness:prep-failed', 'preparation ops failed: %r' % prep_r)
        return v
    v.nontrivial = True
    if len(rets) != 1:
        v.bad('harness:short-log', 'expected one return event')
        return v
    if rets[0]['rc'] == 0 and spec['call'].startswith('maybe:'):
        return v            # a call that MAY be refused (the statement only says what a refusal must leave behind) was carried out
    if rets[0]['rc'] == 0:
        v.bad('accepted:' + key, '%r: the call must be refused but returned success' % spec)
    if json.dumps(before['tree'], sort_keys=True) != json.dumps(after['tree'], sort_keys=True):
        diffs = tree_diff(before['tree'], after['tree'])
        what = sorted(set(d[0] for d in diffs))
        v.bad('changed:%s:%s:%s' % (key, spec['state'], '+'.join(what)), '%r: state changed by the refused call: %s' % (spec, [d[1] for d in diffs][:4]))
    v.notes.setdefault('calls', set()).add(spec['call'].split('@')[0])
    v.notes.setdefault('states', set()).add(spec['state'])
    return v


def tree_diff(a, b, path=''):
    out = []
    if len(a['opts']) != len(b['opts']):
        return [('options', '%s: option count %d -> %d' % (path, len(a['opts']), len(b['opts'])))]
    for oa, ob in zip(a['opts'], b['opts']):
        p = path + '/' + core.unhx(oa['n'])
        if oa['f'] != ob['f']:
            out.append(('flags', '%s: flags %#x -> %#x' % (p, oa['f'], ob['f'])))
        if oa['c'] != ob['c']:
            out.append(('annotation', '%s: annotation %r -> %r' % (p, core.unhx(oa['c']), core.unhx(ob['c']))))
        if oa['t'] == 'sec':
            if len(oa['v']) != len(ob['v']):
                out.append(('sections', '%s: %d -> %d sections' % (p, len(oa['v']), len(ob['v']))))
            else:
                for k, (sa, sb) in enumerate(zip(oa['v'], ob['v'])):
                    if sa['title'] != sb['title']:
                        out.append(('title', '%s[%d]: title changed' % (p, k)))
                    out += tree_diff(sa, sb, '%s[%d]' % (p, k))
        elif oa['v'] != ob['v']:
            out.append(('values', '%s: values %r -> %r' % (p, schema.short(oa['t'], oa['v']), schema.short(ob['t'], ob['v']))))
    return out


def gen(tier, seed):
    yield from all_specs()
    # random reachable states: a random setter sequence, then every refusing call on every option
    from checks import c05
    rng = core.seeded_rng(seed, 'c10')
    for r in range(12 if tier == 'quick' else 400):
        prep = []
        for _ in range(rng.randint(2, 10)):
            d = rng.choice(DECLS)
            prep += c05.ops_for(rng, d, d.name, True, 0)
        prep = [l for l in prep if not l.startswith('setcomment') or rng.random() < 0.7]
        for d in DECLS:
            for tag, _ in calls_for(d):
                if tag in ('addtsec:existing', 'setopt:duplicate-title', 'parse:duplicate-title', 'addtsec:null-title', 'setopt:null-title'):
                    continue        # these need sections with known titles
                yield {'opt': d.name, 'state': 'random', 'call': tag, 'prep': prep}


def run(tier, seed, bindirs):
    t0 = time.time()
    res = core.explore('checks.c10', gen(tier, seed), bindirs, chunk=100)
    return core.finish(PROP, tier, seed, 'fault_enumeration', res, RULE + '; plus the same refusing calls from random setter-built states', t0, floor=500, exhaustive=True,
                       assumptions=['the enumeration is complete for the declared kinds/states/calls; other states are reachable (longer histories) and are covered by C09 through the store model'])
