"""C09 - setter, list and section API behaves as a simple typed store (DESIGN.md 7/C09)."""
import itertools, time
from vlib import core, model_store, schema
from vlib.core import hx, Verdict, F_LIST, F_MULTI, F_TITLE, F_NODEFAULT
from vlib.schema import D

PROP = 'C09'
VARIANTS = ['asan']

SUB_SEC = [D('x', 'int', default=9), D('xl', 'int', F_LIST, default=[3])]
DECLS = [
    D('i', 'int', default=5), D('f', 'float', default=1.5), D('b', 'bool', default=0), D('s', 'str', default='dflt'),
    D('il', 'int', F_LIST, default=[1, 2]), D('sl', 'str', F_LIST, default=['a', 'b']), D('el', 'int', F_LIST, default=None),
    D('nd', 'int', F_NODEFAULT),
    D('sec', 'sec', F_MULTI | F_TITLE, sub=SUB_SEC),
    D('msec', 'sec', F_MULTI, sub=[D('y', 'int', default=0)]),
    D('one', 'sec', 0, sub=[D('z', 'int', default=1)]),
    D('longsec_' + 'n' * 70, 'sec', F_MULTI | F_TITLE, sub=[D('x', 'int', default=1)]),
    # "simple" options: the value lives in a variable of the application
    D('si', 'int', simple=True), D('ss', 'str', simple=True), D('sf', 'float', simple=True), D('sb', 'bool', simple=True),
]
NAMES = [d.name for d in DECLS]

OPS = [
    ['set', 'int', 'i', 7, None], ['set', 'int', 'i', 8, 0], ['set', 'int', 'i', 7, 1],
    ['set', 'int', 'il', 7, 0], ['set', 'int', 'il', 7, 1], ['set', 'int', 'il', 7, 2], ['set', 'int', 'il', 7, 3],
    ['set', 'str', 's', 'x', None], ['set', 'str', 'sl', 'x', 0], ['set', 'str', 'sl', 'y', 2],
    ['set', 'float', 'f', 2.5, None], ['set', 'bool', 'b', 1, None], ['set', 'int', 'nd', 3, None], ['set', 'int', 'el', 6, 0],
    ['setlist', 'il', 'int', [8, 9]], ['setlist', 'il', 'int', []], ['setlist', 'sl', 'str', ['q']], ['setlist', 'i', 'int', [1]],
    ['addlist', 'il', 'int', [7]], ['addlist', 'il', 'int', [7, 8]], ['addlist', 'el', 'int', [4]], ['addlist', 'sl', 'str', ['z']],
    ['addlist', 'i', 'int', [1]],
    ['setmulti', 'il', ['4', '5']], ['setmulti', 'il', ['4', 'zz']], ['setmulti', 'il', ['zz', '4']], ['setmulti', 'i', ['3']],
    ['setmulti', 's', ['m']], ['setmulti', 'sl', ['m', 'n']], ['setmulti', 'nosuch', ['1']], ['setmulti', 'b', ['maybe']],
    ['setopt', 'i', '6'], ['setopt', 'i', 'zz'], ['setopt', 's', 'w'], ['setopt', 'f', '0.25'],
    ['addtsec', 'sec', 't1'], ['addtsec', 'sec', 't2'], ['addtsec', 'i', '5'], ['addtsec', 'nosuch', 't'], ['addtsec', 's', 'ttl'],
    ['rmnsec', 'sec', 0], ['rmnsec', 'sec', 1], ['rmnsec', 'sec', 5], ['rmnsec', 'msec', 0], ['rmnsec', 'i', 0],
    ['rmtsec', 'sec', 't1'], ['rmtsec', 'sec', 'zz'], ['rmtsec', 'msec', 't1'],
    ['rmsec', 'sec=t1'], ['rmsec', 'sec=t2'], ['rmsec', 'msec=0'], ['rmsec', 'msec=1'], ['rmsec', 'sec'], ['rmsec', 'sec=nope'], ['rmsec', 'nosuch'],
    ['set', 'int', 's', 5, None], ['set', 'str', 'i', 'x', None], ['set', 'int', 'nosuch', 1, None], ['set', 'float', 'i', 1.0, None],
    ['set', 'int', 'sec=t1|x', 3, None], ['set', 'int', 'one|z', 4, None], ['addlist', 'sec=t1|xl', 'int', [5]], ['set', 'int', 'sec=t2|xl', 6, 1],
    ['set', 'int', 'sec|x', 2, None],
    # titles that differ only in letter case are different titles (the context is not case-insensitive)
    ['addtsec', 'sec', 'T1'], ['rmtsec', 'sec', 'T1'], ['rmsec', 'sec=T1'], ['set', 'int', 'sec=T1|x', 6, None],
    # by-option variants (cfg_opt_*)
    ['optset', 'int', 'i', 9, 0], ['optset', 'int', 'il', 9, 1], ['optset', 'str', 'sl', 'w', 2], ['optset', 'str', 'i', 'x', 0], ['optset', 'int', 'i', 9, 1],
    ['optsetmulti', 'il', ['1', '2', '3']], ['optsetmulti', 'il', ['1', 'zz']], ['optrmnsec', 'sec', 0], ['optrmnsec', 'sec', 9], ['optrmtsec', 'sec', 't2'],
    ['optrmtsec', 'msec', 't1'], ['optsetcomment', 'il', 'noted'],
    # the new value aliases a value the option already stores
    ['selfstr', 's', 0, 0], ['selfstr', 'sl', 0, 1], ['selfstr', 'sl', 1, 2], ['selfstr', 'sl', 0, 0],
]
NCORE = len(OPS)      # enumerated exhaustively to depth 3; the calls below to depth 2 and in the random sequences
OPS += [
    # simple options: index 0 stores into the application's variable, any other index is refused
    ['set', 'int', 'si', 7, None], ['set', 'int', 'si', 8, 1], ['set', 'str', 'ss', 'x', None], ['set', 'str', 'ss', 'y', 1], ['set', 'float', 'sf', 2.5, None],
    ['set', 'bool', 'sb', 1, None], ['optset', 'int', 'si', 9, 0], ['optset', 'int', 'si', 9, 2], ['optset', 'str', 'ss', 'w', 0], ['set', 'str', 'si', 'x', None],
    # titles containing the path syntax's own '=' (an unquoted title in a path runs to the next '|')
    ['addtsec', 'sec', 'env=prod'], ['addtsec', 'sec', 'env'], ['rmsec', 'sec=env=prod'], ['rmsec', 'sec=env'], ['set', 'int', 'sec=env=prod|x', 4, None],
    ['set', 'int', 'sec=env|x', 5, None], ['rmtsec', 'sec', 'env=prod'],
    # the empty title is a title like any other
    ['addtsec', 'sec', ''], ['rmtsec', 'sec', ''], ['optrmtsec', 'sec', ''], ['set', 'int', "sec=''|x", 8, None],
    # a string value may be NULL
    ['set', 'str', 's', None, None], ['set', 'str', 'sl', None, 1], ['set', 'str', 'sl', None, 2], ['optset', 'str', 'sl', None, 0], ['setlist', 'sl', 'str', ['p', None]],
    ['addlist', 'sl', 'str', [None]],
    # far indices and positions (meaningful from the large start state)
    ['rmtsecself', 'sec', 0], ['rmtsecself', 'sec', 1], ['rmtsecself', 'msec', 0],
    ['addtsec', 'sec', ' t1'], ['addtsec', 'sec', 't1 '], ['rmtsec', 'sec', ' t1'], ['rmtsec', 'sec', 't1 '], ['set', 'int', "sec=' t1'|x", 3, None], ['addtsec', 'sec', '\tt2'],
    ['set', 'str', 's', 'L' * 5000, None], ['set', 'str', 'sl', 'M' * 4097, 1], ['addlist', 'sl', 'str', ['a', 'N' * 70000, 'b']], ['setlist', 'sl', 'str', ['O' * 4096, 'P' * 4095]],
    ['addtsec', 'longsec_' + 'n' * 70, 'T' * 300], ['set', 'int', 'longsec_' + 'n' * 70 + '=' + 'T' * 300 + '|x', 5, None], ['rmsec', 'longsec_' + 'n' * 70 + '=' + 'T' * 300],
    ['addtsec', 'sec', 'U' * 5000], ['rmtsec', 'sec', 'U' * 5000],
    ['addlist', 'il', 'int', [1, 2, 3, 4]],
    ['set', 'int', 'il', 77, 39], ['set', 'int', 'il', 78, 40], ['rmnsec', 'sec', 19], ['rmnsec', 'msec', 19], ['rmnsec', 'msec', 10], ['rmtsec', 'sec', 's19'], ['rmtsec', 'sec', 's0'],
    ['rmsec', 'sec=s10'], ['rmsec', 'msec=19'], ['set', 'int', 'sec=s19|x', 5, None], ['set', 'int', 'msec=19|y', 6, None], ['addtsec', 'sec', 's20'], ['set', 'str', 'sl', 'far', 19],
]

RULE = ('all call sequences up to depth N over %d concrete calls (typed setters at index 0/1/2/3, setlist, addlist, setmulti good/bad, setopt, '
        'addtsec new/existing/wrong type, rmnsec/rmtsec/rmsec present/absent/out of range, wrong-type, index>0 on scalar, unknown name, by-path names) '
        'from the initial state and from parsed states, plus random sequences of length 30; %d more calls (simple options at index 0 and > 0, titles containing "=" addressed by path) to depth 2 and sampled at depth 3; after every call the return value and the full tree '
        '(sizes, values, titles, modified flags) are compared with model_store. non-trivial: the sequence contains >= 1 successful mutation; '
        'distinct = (start state, op sequence)' % (NCORE, len(OPS) - NCORE))

STARTS = {
    'init': None,
    'p1': 'i = 3\nil = {4, 5, 6}\nsl += {c}\nsec t1 { x = 1 }\nsec t2 { xl += {8} }\nmsec { y = 1 }\nmsec { y = 2 }\none { z = 7 }\n',
    'p2': 'il = {}\nsl = {only}\nel = {1,2,3}\nnd = 4\nsec t2 { }\nsec t1 { x = 2 }\nmsec { }\n',
    'p3': 'il += {9}\ns = "p"\nf = 2\nb = yes\nsec t1 { }\nsec t1 { x = 5 }\n',
    # just below a round number of list elements: the appending calls cross it
    'p5': 'il = {%s}\n' % ', '.join(str(k % 97) for k in range(1022)),
    # sizes beyond the first array-growth steps: 40 list elements, 20 titled and 20 untitled sections
    'p4': 'il = {%s}\nsl = {%s}\n%s%s' % (', '.join(str(k) for k in range(40)), ', '.join('w%d' % k for k in range(20)),
                                            ''.join('sec s%d { x = %d }\n' % (k, k) for k in range(20)) + 'sec t1 { x = 1 }\nsec t2 { }\n', ''.join('msec { y = %d }\n' % k for k in range(20))),
}


def start_model(which):
    root = schema.new_root(DECLS)
    def o(n, sec=root):
        return sec.find(n)
    def setv(opt, vals):
        opt.vals = vals
        opt.mod = True
    def addsec(name, title):
        so = o(name)
        d = so.d
        s = schema.MSec(d.name, d.sub, title)
        so.vals.append(s)
        so.mod = True
        return s
    if which == 'p1':
        setv(o('i'), [3]); setv(o('il'), [4, 5, 6]); setv(o('sl'), ['a', 'b', 'c'])
        t1 = addsec('sec', 't1'); setv(o('x', t1), [1])
        t2 = addsec('sec', 't2'); setv(o('xl', t2), [3, 8])
        m1 = addsec('msec', None); setv(o('y', m1), [1])
        m2 = addsec('msec', None); setv(o('y', m2), [2])
        setv(o('z', o('one').vals[0]), [7])
    elif which == 'p2':
        setv(o('il'), []); setv(o('sl'), ['only']); setv(o('el'), [1, 2, 3]); setv(o('nd'), [4])
        addsec('sec', 't2')
        t1 = addsec('sec', 't1'); setv(o('x', t1), [2])
        addsec('msec', None)
    elif which == 'p3':
        setv(o('il'), [1, 2, 9]); setv(o('s'), ['p']); setv(o('f'), [2.0]); setv(o('b'), [1])
        t1 = addsec('sec', 't1'); setv(o('x', t1), [5])
    elif which == 'p5':
        setv(o('il'), [k % 97 for k in range(1022)])
    elif which == 'p4':
        setv(o('il'), list(range(40))); setv(o('sl'), ['w%d' % k for k in range(20)])
        for k in range(20):
            sk = addsec('sec', 's%d' % k); setv(o('x', sk), [k])
        t1 = addsec('sec', 't1'); setv(o('x', t1), [1])
        addsec('sec', 't2')
        for k in range(20):
            mk = addsec('msec', None); setv(o('y', mk), [k])
    return root


def optloc(name):
    return '0:%d' % NAMES.index(name)


def script(spec):
    lines, sid = schema.emit_schema(DECLS)
    lines.append('init 0 %d 0' % sid)
    if STARTS[spec['start']]:
        lines.append('parse_buf 0 %s' % hx(STARTS[spec['start']]))
    lines.append('dump 0')
    for k in spec['ops']:
        lines.append(model_store.render(OPS[k], optloc))
        lines.append('dump 0')
    return '\n'.join(lines)


def rc_of(e):
    return 0 if e['rc'] == 0 else -1


def judge(spec, events, death):
    v = Verdict()
    ops = [OPS[k] for k in spec['ops']]
    evs = [e for e in events if e.get('ev') in ('r', 'dump')]
    # header: init, [parse_buf], dump
    hdr = 3 if STARTS[spec['start']] else 2
    model = start_model(spec['start'])
    if death is not None:
        ndone = max(0, (len(evs) - hdr) // 2)
        op = ops[min(ndone, len(ops) - 1)]
        v.bad('crash:%s@%s:%s(%s)' % (death['kind'], death['where'], op[0], op[1] if op[0] != 'set' else op[2]),
              'after %s from %s, during %r: %s' % (ops[:ndone], spec['start'], op, death['text'][-600:]))
        return v
    if len(evs) < hdr:
        v.bad('harness:short-log', 'no header events')
        return v
    if STARTS[spec['start']] and evs[1]['rc'] != 0:
        v.bad('start-state-rejected:' + spec['start'], 'start text was rejected')
        return v
    d0 = schema.diff_sec(model, evs[hdr - 1]['tree'], simple_mod=True)
    if d0:
        v.bad('start-state:' + spec['start'], 'start state differs from the model: %s' % d0[:3])
        return v
    mutated = False
    pos = hdr
    for n, op in enumerate(ops):
        if pos + 1 >= len(evs):
            v.bad('harness:short-log', 'events missing')
            return v
        r, dmp = evs[pos], evs[pos + 1]
        pos += 2
        exp = model_store.apply(model, op)
        if exp == model_store.UNSPEC:
            v.notes['unspecified_calls'] = v.notes.get('unspecified_calls', 0) + 1
            v.notes.setdefault('unspecified_kinds', set()).add('%s(%s)' % (op[0], op[1] if op[0] != 'set' else op[2]))
            if n == 0:
                v.skipped = True
            break
        oname = op[2] if op[0] == 'set' else op[1]
        if op[0] == 'selfstr':
            oname = op[1]
        if op[0] == 'optset':
            oname = op[2]
        if rc_of(r) != exp:
            v.bad('%s(%s):return' % (op[0], oname), 'start %s, after %s: %r returned %s, the store model says %s' % (
                spec['start'], ops[:n], op, r['rc'], exp))
            break
        diffs = schema.diff_sec(model, dmp['tree'], simple_mod=True)
        if diffs:
            kind = 'modflag' if all('modified flag' in d for d in diffs) else 'state'
            v.bad('%s(%s):%s:%s' % (op[0], oname, kind, 'refused' if exp else 'ok'), 'start %s, after %s: %r -> %s' % (spec['start'], ops[:n], op, diffs[:3]))
            break
        if exp == 0:
            mutated = True
        v.notes.setdefault('calls_checked', 0)
        v.notes['calls_checked'] += 1
    v.nontrivial = mutated
    return v


def gen(tier, seed):
    n = len(OPS)
    for d in range(1, 4):
        for seq in itertools.product(range(n if d < 3 else NCORE), repeat=d):
            yield {'start': 'init', 'ops': list(seq)}
    # depth 3 with at least one of the later calls: sampled
    rng3 = core.seeded_rng(seed, 'c09x')
    for _ in range(20000 if tier == 'quick' else 300000):
        seq = [rng3.randrange(n) for _ in range(3)]
        seq[rng3.randrange(3)] = rng3.randrange(NCORE, n)
        yield {'start': 'init', 'ops': seq}
    if tier != 'quick':
        # depth 4 over the 64 core calls (the by-option / alias / case variants are covered to depth 3 above)
        for seq in itertools.product(range(64), repeat=4):
            yield {'start': 'init', 'ops': list(seq)}
    pdepth = 2 if tier == 'quick' else 3
    for st in ('p1', 'p2', 'p3', 'p4'):
        for d in range(1, pdepth + 1):
            for seq in itertools.product(range(n if d < 3 else NCORE), repeat=d):
                yield {'start': st, 'ops': list(seq)}
    app = [k for k, op in enumerate(OPS) if op[0] in ('addlist', 'setlist') and op[1] == 'il' or (op[0] == 'set' and op[2] == 'il')]
    for a in app:
        for b in app:
            yield {'start': 'p5', 'ops': [a, b, a]}
    rng = core.seeded_rng(seed, 'c09')
    for _ in range(400 if tier == 'quick' else 20000):
        yield {'start': rng.choice([k for k in STARTS if k != 'p5']), 'ops': [rng.randrange(n) for _ in range(30)]}


def run(tier, seed, bindirs):
    t0 = time.time()
    res = core.explore('checks.c09', gen(tier, seed), bindirs, chunk=500)
    return core.finish(PROP, tier, seed, 'exploration', res, RULE, t0, floor=5000,
                       assumptions=['unspecified, executed but judging stops there: typed setter at an index beyond the list size, cfg_setmulti with several values on a scalar, '
                                    'cfg_addtsec on a section without MULTI|TITLE, cfg_setopt on lists',
                                    'the modified flag of *section* options is not compared (the statement does not say whether removal sets it)'],
                       more={'exhaustive_part': 'all sequences up to depth 3 from init%s, depth %d from 3 parsed states, over %d calls' % (
                           '' if tier == 'quick' else ' and depth 4 over the 64 core calls', 2 if tier == 'quick' else 3, len(OPS))})
