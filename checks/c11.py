"""C11 - path lookups resolve like step-by-step navigation (DESIGN.md 7/C11)."""
import json, time, zlib
from vlib import core, schema
from vlib.core import hx, unhx, Verdict, F_LIST, F_MULTI, F_TITLE
from vlib.schema import D

PROP = 'C11'
VARIANTS = ['asan']
HANG_IS_VIOLATION = True
TITLES = ["rock'", "a''", "x\\'", 'a', 'b', 'web', 'two words', "it's", 'a|b', 'x=y', 'back\\slash', "'lead", 'tail\\', '', '0', '1', "q'|\\=", 'ü', 'A', '=', '|']
RULE = ('random trees (single / multi / multi+title sections nested to depth 3, titles containing | \' \\ = space and the empty title) x every option and '
        'section instance addressed by generated paths (each step unqualified / =index / =title / =\'quoted title\') x systematically broken variants '
        '(missing name, index out of range, unknown title, qualifier on a single section, unterminated / badly escaped quote, stray separator at either end, '
        'the historical one-character paths). Oracle: cfg_getopt/cfg_getsec must return the object found by a C walk using single-level accessors only; by-path '
        'setters and cfg_rmsec must change exactly that object (dump diff); non-resolving paths must return not-found, terminate and change nothing. '
        'non-trivial: path has >= 2 steps or a qualifier, or is a broken variant; distinct = (tree, path, operation)')


# ---- tree generation

class Node:
    """a section instance of the generated tree"""
    def __init__(self, decls):
        self.decls = decls
        self.title = None
        self.kids = {}      # section option name -> list of Node


def gen_decls(rng, depth, counter):
    decls = []
    for _ in range(rng.randint(1, 3)):
        counter[0] += 1
        t = rng.choice(['int', 'int', 'str'])
        fl = F_LIST if rng.random() < 0.2 else 0
        oname = 'o%d' % counter[0]
        if rng.random() < 0.04:
            oname += '_' + 'm' * rng.choice([30, 60, 61, 62, 63, 64, 127, 128, 300])
        decls.append(D(oname, t, fl, [1, 2] if fl and t == 'int' else ['u'] if fl else (counter[0] if t == 'int' else 'v%d' % counter[0])))
    if depth < 3:
        for _ in range(rng.randint(0 if depth else 1, 3 if depth < 2 else 2)):
            counter[0] += 1
            fl = rng.choice([0, F_MULTI, F_MULTI | F_TITLE, F_MULTI | F_TITLE])
            sname = 's%d' % counter[0]
            r = rng.random()
            if r < 0.06:
                sname += '_' + 'n' * rng.choice([29, 30, 31, 59, 60, 61, 62, 63, 64, 125, 126, 127, 128, 300])      # (names around fixed-buffer sizes)
            decls.append(D(sname, 'sec', fl, sub=gen_decls(rng, depth + 1, counter)))
    rng.shuffle(decls)
    return decls


NOCASE_MODE = [False]


def gen_instances(rng, decls):
    n = Node(decls)
    for d in decls:
        if d.typ != 'sec':
            continue
        if d.is_multi:
            cnt = rng.choice([0, 1, 2, 2, 3]) if rng.random() < 0.95 else 12      # (two-digit indices)
            if d.flags & F_TITLE:
                pool = [t for t in TITLES if t != 'A'] + ['Web Two'] if NOCASE_MODE[0] else TITLES     # (no two titles that differ in letter case only, under a case-insensitive context)
                titles = rng.sample(pool, cnt) if cnt <= len(pool) else ['t%d' % k for k in range(cnt)]
            else:
                titles = [None] * cnt
        else:
            cnt, titles = 1, [None]
        inst = []
        for k in range(cnt):
            c = gen_instances(rng, d.sub)
            c.title = titles[k]
            inst.append(c)
        n.kids[d.name] = inst
    return n


def dq(s):
    return '"' + s.replace('\\', '\\\\').replace('"', '\\"') + '"'


def render_text(node, ind=0):
    out = []
    for d in node.decls:
        if d.typ != 'sec':
            continue
        for c in node.kids[d.name]:
            head = d.name + (' ' + dq(c.title) if d.flags & F_TITLE else '')
            out.append('  ' * ind + head + ' {')
            out += render_text(c, ind + 1)
            out.append('  ' * ind + '}')
    return out


def quote_title(t):
    return "'" + t.replace('\\', '\\\\').replace("'", "\\'") + "'"


def bare_ok(t):
    return t != '' and '|' not in t and not t.startswith("'")


def step_forms(rng, d, idx, node):
    """possible (pathtext, [name, qk, q]) renderings of one step into instance idx of section option d"""
    forms = []
    if not d.is_multi:
        forms.append((d.name, [d.name, 'n', '-']))
        return forms
    if d.flags & F_TITLE:
        t = node.title
        forms.append((d.name + '=' + quote_title(t), [d.name, 't', t]))
        if bare_ok(t):
            forms.append((d.name + '=' + t, [d.name, 't', t]))
    else:
        forms.append((d.name + '=%d' % idx, [d.name, 'i', idx]))
    if idx == 0:
        forms.append((d.name, [d.name, 'n', '-']))
    return forms


def enum_targets(node, chain, out):
    """chain: list of (decl, idx, childnode)"""
    for d in node.decls:
        out.append(('opt', list(chain), d))
        if d.typ == 'sec':
            for k, c in enumerate(node.kids[d.name]):
                ch = chain + [(d, k, c)]
                out.append(('sec', ch, None))
                enum_targets(c, ch, out)


def make_queries(rng, root):
    targets = []
    enum_targets(root, [], targets)
    rng.shuffle(targets)
    Q = []
    for kind, chain, leaf in targets[:14]:
        for _ in range(2):
            texts, steps = [], []
            for d, k, c in chain:
                f = rng.choice(step_forms(rng, d, k, c))
                texts.append(f[0])
                steps.append(f[1])
            if kind == 'opt':
                texts.append(leaf.name)
                steps.append([leaf.name, 'n', '-'])
            path = '|'.join(texts)
            Q.append({'kind': kind, 'path': path, 'steps': steps, 'exp': 'resolve', 'leaf': leaf.typ if leaf else None,
                      'leaflist': bool(leaf and leaf.is_list), 'parent': '|'.join(texts[:-1])})
            # broken variants
            B = []
            B.append(('leading-sep', '|' + path))
            B.append(('trailing-sep', path + '|'))
            j = rng.randrange(len(texts))
            t2 = list(texts)
            nm = steps[j][0]
            t2[j] = t2[j].replace(nm, nm + '_zz', 1)
            B.append(('missing-name', '|'.join(t2)))
            for j, (d, k, c) in enumerate(chain):
                t3 = list(texts)
                if not d.is_multi:
                    t3[j] = d.name + rng.choice(['=0', '=x', "='x'"])
                    B.append(('qualifier-on-single', '|'.join(t3)))
                elif d.flags & F_TITLE:
                    others = [x.title for x in c_siblings(root, chain, j)]
                    bad = c.title + '_nope'
                    if bad not in others:
                        t3[j] = d.name + '=' + (quote_title(bad) if rng.random() < 0.5 or not bare_ok(bad) else bad)
                        B.append(('unknown-title', '|'.join(t3)))
                    t4 = list(texts)
                    t4[j] = d.name + "='" + c.title.replace('\\', '\\\\').replace("'", "\\'")
                    B.append(('unterminated-quote', '|'.join(t4)))
                    t5 = list(texts)
                    t5[j] = d.name + "='" + 'q\\z' + c.title.replace('\\', '\\\\').replace("'", "\\'") + "'"
                    B.append(('bad-escape', '|'.join(t5)))
                    # a backslash in front of an ordinary character of the real title: not one of the two escapes, so malformed -
                    # and dropping the backslash would address the existing section
                    esc = lambda x: x.replace('\\', '\\\\').replace("'", "\\'")
                    ks = [i for i, ch in enumerate(c.title) if ch not in "'\\"]
                    if ks:
                        i = rng.choice(ks)
                        t9 = list(texts)
                        t9[j] = d.name + "='" + esc(c.title[:i]) + '\\' + c.title[i] + esc(c.title[i + 1:]) + "'"
                        B.append(('stray-backslash-in-title', '|'.join(t9)))
                    t6 = list(texts)
                    t6[j] = d.name + '='
                    B.append(('empty-qualifier', '|'.join(t6)))
                else:
                    n = len(c_siblings(root, chain, j))
                    t3[j] = d.name + '=%d' % rng.choice([n, n + 5, 99])
                    B.append(('index-out-of-range', '|'.join(t3)))
                    t7 = list(texts)
                    t7[j] = d.name + '=-1'
                    B.append(('negative-index', '|'.join(t7)))
                    t10 = list(texts)
                    t10[j] = d.name + '=%d' % (rng.choice([2 ** 32, 2 ** 32 + k, 2 ** 33, 2 ** 63 - 1, 2 ** 64, 2 ** 64 + k, 2 ** 31 * 2 + k]))
                    B.append(('index-beyond-32-bits', '|'.join(t10)))
                    t8 = list(texts)
                    t8[j] = d.name + '=%dx' % k
                    B.append(('garbage-index', '|'.join(t8)))
            for tag, bp in B:
                Q.append({'kind': kind, 'path': bp, 'steps': None, 'exp': 'none', 'tag': tag, 'leaf': leaf.typ if leaf else None})
            # a title spelled in other letter case: whether that matches is the single-level accessor's business - the by-path calls must simply agree with it
            for j, (d, k, c) in enumerate(chain):
                if d.is_multi and d.flags & F_TITLE and c.title and c.title.swapcase() != c.title:
                    vt = c.title.swapcase()
                    tx, st = list(texts), [list(x) for x in steps]
                    tx[j] = d.name + '=' + (quote_title(vt) if rng.random() < 0.5 or not bare_ok(vt) else vt)
                    st[j] = [d.name, 't', vt]
                    Q.append({'kind': kind, 'path': '|'.join(tx), 'steps': st, 'exp': 'walk', 'tag': 'case-variant-title', 'leaf': leaf.typ if leaf else None,
                              'leaflist': bool(leaf and leaf.is_list), 'parent': '|'.join(tx[:-1])})
                    break
    for p in ['=', '|', '==', '||', '=x', "='", "='x", '|=', '=|', "'", '\\']:
        Q.append({'kind': rng.choice(['opt', 'sec']), 'path': p, 'steps': None, 'exp': 'none', 'tag': 'degenerate', 'leaf': None})
    return Q


def c_siblings(root, chain, j):
    node = root
    for d, k, c in chain[:j]:
        node = c
    return node.kids[chain[j][0].name]


def gen(tier, seed):
    rng = core.seeded_rng(seed, 'c11')
    n = 500 if tier == 'quick' else 6000
    for i in range(n):
        counter = [0]
        decls = gen_decls(rng, 0, counter)
        nocase = rng.random() < 0.35
        NOCASE_MODE[0] = nocase
        root = gen_instances(rng, decls)
        text = '\n'.join(render_text(root)) + '\n'
        Q = make_queries(rng, root)
        yield {'decls': [d.to_json() for d in decls], 'text': text, 'q': Q, 'seed': '%d/%d' % (seed, i), 'flags': core.F_NOCASE if nocase else 0,
               'rmvariant': rng.random() < 0.5}


# ---- script

def script(spec):
    decls = [D.from_json(j) for j in spec['decls']]
    lines, sid = schema.emit_schema(decls)
    lines.append('init 0 %d %d' % (sid, spec.get('flags', 0)))
    lines.append('parse_buf 0 %s' % hx(spec['text']))
    lines.append('dump 0')
    stale = zlib.crc32(spec['seed'].encode()) % 4 == 0      # a quarter of the trees: every lookup starts with a stale ERANGE in errno
    for q in spec['q']:
        p = hx(q['path'])
        lines.append('note q')
        if stale:
            lines.append('set_errno 34')
        if q['steps'] is not None:
            st = ' '.join('%s %s %s' % (hx(s[0]), s[1], hx(s[2]) if s[1] == 't' else s[2]) for s in q['steps'])
            lines.append('step 0 %s %d %s' % (q['kind'], len(q['steps']), st))
        if q['kind'] == 'opt':
            lines.append('getopt 0 %s' % p)
        else:
            lines.append('getsec 0 %s' % p)
        if q['exp'] == 'none':
            # every by-path entry point on a non-resolving path
            lines.append(('getsec 0 %s' if q['kind'] == 'opt' else 'getopt 0 %s') % p)
            lines.append('setint 0 %s 4242' % p)
            lines.append('setstr 0 %s %s' % (p, hx('zz')))
            lines.append('get 0 size %s 0' % p)
            lines.append('rmsec 0 %s' % p)
            lines.append('dump 0')
    # one mutating use of a resolving path at the end: by-path setter, then by-path remove
    res = [q for q in spec['q'] if q['exp'] == 'resolve']
    setq = next((q for q in res if q['kind'] == 'opt' and q['leaf'] in ('int', 'str') and not q['leaflist']), None)
    if setq:
        lines.append('note set')
        st = ' '.join('%s %s %s' % (hx(s[0]), s[1], hx(s[2]) if s[1] == 't' else s[2]) for s in setq['steps'])
        lines.append('step 0 opt %d %s' % (len(setq['steps']), st))
        if setq['leaf'] == 'int':
            lines.append('setint 0 %s 4242' % hx(setq['path']))
        else:
            lines.append('setstr 0 %s %s' % (hx(setq['path']), hx('by-path')))
        lines.append('dump 0')
    rmq = next((q for q in reversed(res) if q['kind'] == 'sec'), None)
    if spec.get('rmvariant'):
        rmq = next((q for q in spec['q'] if q['exp'] == 'walk' and q['kind'] == 'sec'), rmq)
    if rmq:
        lines.append('note rm')
        st = ' '.join('%s %s %s' % (hx(s[0]), s[1], hx(s[2]) if s[1] == 't' else s[2]) for s in rmq['steps'])
        lines.append('step 0 sec %d %s' % (len(rmq['steps']), st))
        if rmq['steps'][-1][1] == 't' and zlib.crc32(rmq['path'].encode('latin-1')) % 2:
            # the by-title remover, its option addressed by path: cfg_rmtsec(cfg, "a=1|b", title)
            parent = rmq['parent'] + '|' if rmq.get('parent') else ''
            lines.append('rmtsec 0 %s %s' % (hx(parent + rmq['steps'][-1][0]), hx(rmq['steps'][-1][2])))
        else:
            lines.append('rmsec 0 %s' % hx(rmq['path']))
        lines.append('dump 0')
    return '\n'.join(lines)


def positions(tree, prefix='0'):
    """map locator -> option dump, for all options"""
    out = {}
    for i, o in enumerate(tree['opts']):
        out['%s:%d' % (prefix, i)] = o
        if o['t'] == 'sec':
            for j, s in enumerate(o['v']):
                out.update(positions(s, '%s:%d.%d' % (prefix, i, j)))
    return out


def flat(o):
    """an option's own content (not its sub-sections' content)"""
    if o['t'] == 'sec':
        return (o['f'] & ~core.F_MODIFIED, o['c'], [s['title'] for s in o['v']])
    return (o['f'], o['c'], o['v'])


def judge(spec, events, death):
    v = Verdict()
    if death is not None:
        nq = len([e for e in events if e.get('ev') == 'note' and e.get('t') == 'q'])
        q = spec['q'][max(0, min(nq, len(spec['q'])) - 1)] if spec['q'] else {}
        v.bad('crash:%s@%s:%s' % (death['kind'], death['where'], q.get('tag', q.get('exp'))), 'path %r (%s): %s' % (q.get('path'), q.get('kind'), death['text'][-500:]))
        return v
    # split events per note
    groups = []
    cur = None
    head = []
    for e in events:
        if e.get('ev') == 'note':
            cur = [e['t']]
            groups.append(cur)
        elif cur is None:
            head.append(e)
        else:
            cur.append(e)
    pr = [e for e in head if e.get('ev') == 'r' and e.get('op') == 'parse_buf']
    dm = [e for e in head if e.get('ev') == 'dump']
    if not pr or pr[0]['rc'] != 0 or not dm:
        v.bad('harness:tree-text-rejected', 'generated tree text was rejected: %r' % [unhx(e['msg']) for e in head if e.get('ev') == 'diag'][:2])
        return v
    tree0 = dm[0]['tree']
    base = json.dumps(tree0, sort_keys=True)
    qi = 0
    for g in groups:
        tag = g[0]
        evs = g[1:]
        if tag == 'q':
            q = spec['q'][qi]
            qi += 1
            looks = [e for e in evs if e.get('ev') == 'look']
            if q['exp'] == 'walk':
                if len(looks) < 2:
                    v.bad('harness:short-log', 'lookup events missing')
                    return v
                v.notes['case_variant_lookups'] = v.notes.get('case_variant_lookups', 0) + 1
                v.notes['resolving_lookups'] = v.notes.get('resolving_lookups', 0) + 1
                if looks[0]['pos'] != looks[1]['pos']:
                    v.bad('%s:disagrees-with-walk:case-variant-title:%s' % ('getopt' if q['kind'] == 'opt' else 'getsec', 'nocase' if spec.get('flags') else 'case-sensitive'),
                          'path %r: by-path lookup gave %s, stepwise navigation with the same spelling gives %s' % (q['path'], looks[1]['pos'], looks[0]['pos']))
                continue
            if q['exp'] == 'resolve':
                if len(looks) < 2:
                    v.bad('harness:short-log', 'lookup events missing')
                    return v
                stepw, got = looks[0]['pos'], looks[1]['pos']
                if stepw is None:
                    v.bad('harness:stepwise-walk-failed', 'the generator believes %r exists but the stepwise walk found nothing' % q['path'])
                    continue
                v.notes['resolving_lookups'] = v.notes.get('resolving_lookups', 0) + 1
                nt = len(q['steps']) >= 2 or any(s[1] != 'n' for s in q['steps'])
                if nt:
                    v.nontrivial = True
                    v.notes.setdefault('nt_paths', set()).add(zlib.crc32((spec['seed'] + q['path'] + q['kind']).encode('latin-1')))
                if got != stepw:
                    forms = '+'.join(sorted(set({'n': 'unqualified', 'i': 'index', 't': 'title'}[s[1]] for s in q['steps'])))
                    quoted = "quoted" if "='" in q['path'] else 'bare'
                    v.bad('%s:wrong-target:%s:%s' % ('getopt' if q['kind'] == 'opt' else 'getsec', forms, quoted),
                          'path %r: by-path lookup gave %s, stepwise navigation gives %s' % (q['path'], got, stepw))
            else:
                v.nontrivial = True
                v.notes.setdefault('nt_paths', set()).add(zlib.crc32((spec['seed'] + q['path'] + q['kind']).encode('latin-1')))
                v.notes['nonresolving_lookups'] = v.notes.get('nonresolving_lookups', 0) + 1
                v.notes.setdefault('broken_classes', set()).add(q['tag'])
                for e in looks:
                    if e['pos'] is not None:
                        v.bad('%s:resolved-broken-path:%s' % (e['op'], q['tag']), 'non-resolving path %r (%s) resolved to %s via %s' % (q['path'], q['tag'], e['pos'], e['op']))
                for e in evs:
                    if e.get('ev') == 'r' and e.get('op') in ('setint', 'setstr', 'rmsec') and e['rc'] == 0:
                        v.bad('%s:accepted-broken-path:%s' % (e['op'], q['tag']), 'non-resolving path %r (%s): %s succeeded' % (q['path'], q['tag'], e['op']))
                    if e.get('ev') == 'get' and e.get('k') == 'size' and e['v'] != 0:
                        v.bad('size:resolved-broken-path:%s' % q['tag'], 'non-resolving path %r: cfg_size = %s' % (q['path'], e['v']))
                    if e.get('ev') == 'dump' and json.dumps(e['tree'], sort_keys=True) != base:
                        v.bad('changed-by-broken-path:%s' % q['tag'], 'non-resolving path %r (%s) changed the tree' % (q['path'], q['tag']))
                        base = json.dumps(e['tree'], sort_keys=True)
        elif tag == 'set':
            look = [e for e in evs if e.get('ev') == 'look']
            ret = [e for e in evs if e.get('ev') == 'r']
            dmp = [e for e in evs if e.get('ev') == 'dump']
            if not look or not ret or not dmp:
                continue
            pos = look[0]['pos']
            before = positions(json.loads(base))
            after = positions(dmp[0]['tree'])
            changed = sorted(k for k in before if k not in after or flat(before[k]) != flat(after[k]))
            if ret[0]['rc'] != 0:
                v.bad('setter:refused-resolving-path', 'by-path setter on a resolving path failed')
            elif changed != [pos]:
                v.bad('setter:wrong-target', 'by-path setter changed %s, stepwise navigation addresses %s' % (changed, pos))
            else:
                v.notes['setter_checks'] = v.notes.get('setter_checks', 0) + 1
            base = json.dumps(dmp[0]['tree'], sort_keys=True)
        elif tag == 'rm':
            look = [e for e in evs if e.get('ev') == 'look']
            ret = [e for e in evs if e.get('ev') == 'r']
            dmp = [e for e in evs if e.get('ev') == 'dump']
            if not look or not ret or not dmp:
                continue
            if look[0]['pos'] is None:
                # the stepwise walk finds nothing under this spelling: the remover must fail and change nothing
                v.notes['rmsec_checks'] = v.notes.get('rmsec_checks', 0) + 1
                if ret[0]['rc'] == 0 or strip_secmod(json.loads(base)) != strip_secmod(dmp[0]['tree']):
                    v.bad('rmsec:removed-what-the-walk-does-not-find', 'cfg_rmsec(path) rc=%s although stepwise navigation with the same spelling finds no such section' % ret[0]['rc'])
                continue
            pos = look[0]['pos']          # e.g. 0:2.1:0.0  -> remove instance .0 of option 0:2.1:0
            exp = json.loads(base)
            parts = pos.split(':')[1:]
            node = exp
            for p in parts[:-1]:
                i, j = p.split('.')
                node = node['opts'][int(i)]['v'][int(j)]
            i, j = parts[-1].split('.')
            del node['opts'][int(i)]['v'][int(j)]
            got = dmp[0]['tree']
            if ret[0]['rc'] != 0:
                v.bad('rmsec:refused-resolving-path', 'cfg_rmsec on a resolving path failed')
            elif strip_secmod(exp) != strip_secmod(got):
                v.bad('rmsec:wrong-target', 'cfg_rmsec(path) did not remove exactly the instance at %s' % pos)
            else:
                v.notes['rmsec_checks'] = v.notes.get('rmsec_checks', 0) + 1
    return v


def strip_secmod(tree):
    t = json.loads(json.dumps(tree))

    def walk(s):
        for o in s['opts']:
            if o['t'] == 'sec':
                o['f'] &= ~core.F_MODIFIED
                for x in o['v']:
                    walk(x)
    walk(t)
    return json.dumps(t, sort_keys=True)


def run(tier, seed, bindirs):
    t0 = time.time()
    res = core.explore('checks.c11', gen(tier, seed), bindirs, chunk=20, opts={'solo_timeout': 90, 'timeout': 900})
    lookups = res.extra.get('resolving_lookups', 0) + res.extra.get('nonresolving_lookups', 0)
    trees = res.evaluations
    if not res.extra.get('harness_errors'):
        res.evaluations = res.judged = lookups
        res.nontrivial = res.extra.pop('nt_paths', set())
    return core.finish(PROP, tier, seed, 'exploration', res, RULE, t0, floor=100,
                       assumptions=['unspecified and not generated: doubled separators in the middle of a path, a numeric index on a titled section, non-decimal index spellings',
                                    'a path call that does not return within 90 s when run alone is reported as a hang (violation: the statement demands termination)'],
                       more={'trees': trees})
