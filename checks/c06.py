"""C06 - rejected input is always reported, with the right file and line (DESIGN.md 7/C06)."""
import time, zlib
from vlib import core, schema, model_lang
from vlib import gen as G
from vlib.core import hx, unhx, Verdict, F_LIST, F_MULTI, F_TITLE, F_NOCASE, F_NODEFAULT
from vlib.schema import D

PROP = 'C06'
VARIANTS = ['asan']
RULE = ('grammar-derived valid texts over random schemas (no deprecated options; free-form key=value sections included) with an error injected at a token position (unknown name, '
        'unconvertible value, wrong token, premature end), laid out with any mix of # // /* */ comments (also multi-line), blank lines, CRLF, multi-line quoted strings, backslash-newline '
        'continuations and 0-2 levels of include; the generator tracks the file and end line of every token, model_lang decides at which token the text must be rejected. Expected: parse-error '
        'code, >= 1 diagnostic, every diagnostic naming that file and that line; the judged text is given through cfg_parse_buf, cfg_parse_fp or cfg_parse(file), in 40% of cases after an earlier accepted parse (comments and blank lines) on the same context. Second clause: every accepted parse delivers no diagnostic. Third family: 19 malformed undeclared items under CFGF_IGNORE_UNKNOWN (the error paths of the skipping sub-parser), laid out over several lines, at top level and inside a section. '
        'non-trivial: the error point is preceded by a newline-bearing construct other than a blank line; distinct = case hash')

LONGCOMMENT = ' /* ' + 'a long comment line\n' * 300 + ' */ '       # 6 KB, 300 newlines
SEPS = [' ', ' ', '\n', '\n', '  \n\n ', '\t', '\r\n', ' # c\n', ' // c\n', ' /* c */ ', ' /* multi\n line\n*/ ', '\n# own line\n', '\n\n// x\n\n', ' /**/ ', ' #\n']


def spell_multiline(rng, s):
    """a quoted spelling of s that spans lines (raw newline or backslash-newline continuation)"""
    q = rng.choice(['"', "'"])
    body = s.replace('\\', '\\\\').replace(q, '\\' + q)
    if q == '"':
        body = body.replace('$', '\\$')
    k = rng.randint(0, len(body))
    # do not split an escape pair
    while k > 0 and body[k - 1] == '\\':
        k -= 1
    return q + body[:k] + '\\\n' + body[k:] + q


def layout(rng, toks, fancy):
    """-> (text, [end line of each token], total lines at EOF)"""
    out = []
    line = 1
    ends = []
    for i, t in enumerate(toks):
        sep = rng.choice(SEPS) if fancy else rng.choice([' ', '\n'])
        if fancy and rng.random() < 0.004:
            sep = LONGCOMMENT
        if i == 0 and rng.random() < 0.5:
            sep = ''
        out.append(sep)
        line += sep.count('\n')
        sp = t[1]
        out.append(sp)
        line += sp.count('\n')
        ends.append(line)
    tail = rng.choice(['\n', '', '\n\n', ' # trailing\n', '\n/* end */\n']) if fancy else '\n'
    out.append(tail)
    line += tail.count('\n')
    return ''.join(out), ends, line


def gen_case(rng, idx, want_accept):
    so = G.SchemaOpts(funcs=True, keystrval=True, deprecated=False, nodefault=True, depth=2)
    decls = G.gen_schema(rng, so)
    decls.append(D('include', 'func', cbs='I'))
    items = []
    for _ in range(rng.randint(1, 6)):
        toks = []
        G.gen_items(rng, decls[:-1], toks, 0, 1, True)
        if toks:
            items.append(toks)
    if not items:
        return None
    # multi-line strings: respell some value/title tokens
    for it in items:
        for t in it:
            if t[0] in ('val', 'title') and t[2] is not None and '\0' not in t[2] and rng.random() < 0.15:
                t[1] = spell_multiline(rng, t[2])
    # titles spelled with a backslash in front of a CR LF line end (DOS files): the backslash escapes the CR, the line end still counts
    for it in items:
        for t in it:
            if t[0] == 'title' and t[2] is not None and t[2] != '' and '\0' not in t[2] and rng.random() < 0.05:
                k = rng.randint(0, len(t[2]))
                esc = lambda x: x.replace('\\', '\\\\').replace('"', '\\"').replace('$', '\\$')
                t[1] = '"' + esc(t[2][:k]) + '\\\r\n' + esc(t[2][k:]) + '"'
                t[2] = t[2][:k] + '\r\n' + t[2][k:]
    # titles written as a substitution whose default spans two lines, inside double quotes: the line end counts
    for it in items:
        for t in it:
            if t[0] == 'title' and t[2] is not None and rng.random() < 0.04:
                a, b = rng.choice(['al', 'be', 'ga']) , rng.choice(['pha', 'ta', 'mma'])
                t[1] = '"${VERIF_C06_UNSET_VARIABLE:-%s\n%s}"' % (a, b)
                t[2] = a + '\n' + b
    # distribute over files: main, f1 (depth 1), f2 (depth 2)
    n = len(items)
    files = {'main': None}
    plan = [('main', it) for it in items]
    if n >= 2 and rng.random() < 0.6:
        a = rng.randint(0, n - 1)
        b = rng.randint(a + 1, n)
        for k in range(a, b):
            plan[k] = ('f1.conf', items[k])
        if b - a >= 2 and rng.random() < 0.5:
            c = rng.randint(a, b - 1)
            d = rng.randint(c + 1, b)
            for k in range(c, d):
                plan[k] = ('f2.conf', items[k])
    # error injection on one token of one item
    kind = None
    failat = 0
    if not want_accept:
        fi = rng.randrange(n)
        it = plan[fi][1]
        ti = rng.randrange(len(it))
        kind = rng.choice(['unknown-name', 'bad-value', 'wrong-token', 'wrong-token', 'truncate', 'callback', 'lexer-error'])
        if kind == 'callback':
            # no injected token: instead some options / sections carry a validation callback and its k-th invocation refuses
            def mark(ds):
                for d in ds:
                    if d.typ == 'sec':
                        if rng.random() < 0.6:
                            d.cbs = 'v'
                        if not (d.flags & core.F_KEYSTRVAL):
                            mark(d.sub or [])
                    elif d.typ in ('int', 'float', 'bool', 'str') and not (d.is_list and d.default) and rng.random() < 0.5:
                        d.cbs = 'v'
            mark(decls[:-1])
            failat = rng.randint(1, 6)
        if kind == 'unknown-name':
            nm = rng.choice(['nosuch_option', 'nosuch_option', 'nosuch|depth', 'nosuch=1|x', 'nosuch|', '|nosuch', 'no such'])
            secs = [d.name for d in decls[:-1] if d.typ == 'sec' and not d.is_multi and not (d.flags & (core.F_NODEFAULT | core.F_TITLE))]
            if secs and rng.random() < 0.3:
                # a declared section followed by a stray separator, or leading into nothing: resolves to no option
                nm = rng.choice(secs) + rng.choice(['|', '|nosuch', '||', '|=', '=0|'])
            it[ti] = ['name', nm if G.word_ok(nm) else '"%s"' % nm, nm]
        elif kind == 'bad-value':
            sp, dec = rng.choice([('zz!', 'zz!'), ('"not a number"', 'not a number'), ("'1.2.3'", '1.2.3'), ('12abc', '12abc'), ('0x-5', '0x-5'), ('0b-1', '0b-1'),
                                  ('0x0x1f', '0x0x1f'), ('"0x 5"', '0x 5'), ('"0x+5"', '0x+5'), ('0x', '0x'), ('08', '08'), ('""', ''), ('1e999', '1e999'),
                                  ('99999999999999999999', '99999999999999999999'), ('maybe', 'maybe'), ('1e-310', '1e-310'), ('4e-324', '4e-324'), ('-1e-400', '-1e-400'), ('0b2', '0b2'), ('1..5', '1..5'), ('-', '-')])
            it[ti] = ['val', sp, dec]
        elif kind == 'wrong-token':
            p = rng.choice(['=', '+=', '{', '}', '(', ')', ','])
            it[ti] = [p, p, None]
        elif kind == 'lexer-error':
            # a token the scanner itself refuses (invalid octal number, bad escape sequence); it is reported on the line it is on
            sp = rng.choice(['"a\\777b"', '"\\400"', '"x\\9"', '"\\8 y"', '"\\1234"', '"two words \\999"'])
            it[ti] = ['lexerr', sp, None]
        elif kind == 'callback':
            pass
        else:
            # premature end: cut the main file's last item
            last = max(k for k in range(n) if plan[k][0] == 'main') if any(p[0] == 'main' for p in plan) else None
            if last is None or last != n - 1:
                kind = 'wrong-token'
                it[ti] = ['}', '}', None]
            elif rng.random() < 0.3:
                # the text ends inside a single-quoted string: the scanner reports it where the input ends
                plan[last][1].append(['lexerr-open', "'never closed", None])
                kind = 'open-string'
            else:
                cut = rng.randint(0, len(plan[last][1]) - 1)
                del plan[last][1][cut:]
    # entry point of the judged parse, and an earlier (accepted, comment-and-blank-lines only) parse on the same context
    entry = rng.choice(['buf'] * 6 + ['fp', 'fp', 'file', 'file'])
    pre = rng.choice([None] * 6 + ['buf', 'fp', 'fp', 'file'])
    pretext = ''.join(rng.choice(['\n', '# earlier\n', '/* earlier\n text */\n', '\n\n']) for _ in range(rng.randint(1, 6)))
    return {'decls': [d.to_json() for d in decls], 'plan': [[f, it] for f, it in plan], 'fancy': rng.random() < 0.85, 'kind': kind, 'seed': rng.getrandbits(32), 'dir': 'k%d' % idx, 'failat': failat,
            'entry': entry, 'pre': pre, 'pretext': pretext}


def build(spec):
    """physical files + the token stream in the order the parser receives it, each token tagged (file, end line).
    An include call stays in the stream (the model treats include as an ordinary function); the tokens of the
    included file follow its closing parenthesis.  -> (files dict, tokens, tags, eof tag)"""
    rng = core.seeded_rng(spec['seed'], 'layout')
    plan = spec['plan']
    fancy = spec['fancy']
    child = {'main': 'f1.conf', 'f1.conf': 'f2.conf'}
    files = {}

    def emit(fname, lo, hi):
        """-> (stream of (token, tag) for plan[lo:hi] as read through file fname, total lines of that file)"""
        toks, marks = [], []           # marks[i] = None | (lo, hi) run to splice after token i
        k = lo
        while k < hi:
            if plan[k][0] == fname:
                for t in plan[k][1]:
                    toks.append(t)
                    marks.append(None)
                k += 1
            else:
                j = k
                while j < hi and plan[j][0] != fname:
                    j += 1
                nxt = child[fname]
                call = [['name', 'include', 'include'], ['(', '(', None], ['val', '"%s"' % nxt, nxt], [')', ')', None]]
                for n_, t in enumerate(call):
                    toks.append(t)
                    marks.append((k, j) if n_ == 3 else None)
                k = j
        text, ends, total = layout(rng, toks, fancy)
        files[fname] = text
        stream = []
        for t, m, e in zip(toks, marks, ends):
            stream.append((t, (fname, e)))
            if m is not None:
                sub, _ = emit(child[fname], m[0], m[1])
                stream.extend(sub)
        return stream, total
    stream, total = emit('main', 0, len(plan))
    return files, [t for t, _ in stream], [g for _, g in stream], ('main', total)


# malformed *undeclared* items under CFGF_IGNORE_UNKNOWN: (tokens, index of the first token that cannot continue any well-formed item; None = end of input)
# (the same family also holds declared-function misuse: include() without / with too many arguments must be reported, not just refused)
SKIP_BAD = [(['include', '(', ')'], 2), (['include', '(', 'a', ',', 'b', ')'], 5), (['include', '(', ')', 'i', '=', '2'], 2),
            (['unk', ','], 1), (['unk', ')'], 1), (['unk', '}'], 1), (['unk', 'ttl', '='], 2), (['unk', 'ttl', 'x'], 2), (['unk', 'ttl', ','], 2), (['unk', '=', ','], 2),
            (['unk', '=', ')'], 2), (['unk', '+=', ')'], 2), (['unk', '+=', '='], 2), (['unk', '(', 'a'], None), (['unk', '(', 'a', ','], None), (['unk', '{', 'x', '=', '1'], None),
            (['unk', 'ttl', '{', 'deep', '{', '}'], None), (['unk', '=', '{', '1', ','], None), (['unk', '='], None), (['unk'], None), (['unk', 'ttl'], None),
            (['unk', '{', 'a', '=', '"open'], None)]


def skip_specs(tier, seed):
    rng = core.seeded_rng(seed, 'c06skip')
    for rep in range(3 if tier == 'quick' else 40):
        for k, (toks, bad) in enumerate(SKIP_BAD):
            for where in ('top', 'in-section'):
                yield {'skip': k, 'where': where, 'seps': [rng.choice([' ', '\n', '\n\n', ' # c\n', ' /* a\n b */ ', '\t']) for _ in range(len(toks) + 6)], 'lead': rng.randint(0, 4)}


def skip_text(spec):
    """-> (text, expected line of the diagnostic)"""
    toks, bad = SKIP_BAD[spec['skip']]
    pre = ['i', '=', '1'] + (['one', '{'] if spec['where'] == 'in-section' else [])
    seq = pre + list(toks)
    text = '\n' * spec['lead']
    line = 1 + spec['lead']
    badline = None
    for n, t in enumerate(seq):
        text += t
        line += t.count('\n')
        if bad is not None and n == len(pre) + bad:
            badline = line
            break
        sep = spec['seps'][n % len(spec['seps'])]
        if t == '"open':
            sep = ''
        text += sep
        line += sep.count('\n')
    if badline is None:
        badline = 1 + text.count('\n')      # rejected at the end of the input
    return text, badline


def skip_script(spec):
    decls = [D('i', 'int', default=0), D('one', 'sec', 0, sub=[D('z', 'int', default=0), D('include', 'func', cbs='I')]), D('include', 'func', cbs='I')]
    lines, sid = schema.emit_schema(decls)
    text, _ = skip_text(spec)
    return '\n'.join(lines + ['init 0 %d %d' % (sid, core.F_IGNORE_UNKNOWN), 'parse_buf 0 %s' % hx(text)])


def skip_judge(spec, events, death):
    v = Verdict()
    text, badline = skip_text(spec)
    toks, bad = SKIP_BAD[spec['skip']]
    tag = '%s@%s' % ('-'.join(toks)[:24], 'eof' if bad is None else toks[bad])
    if death is not None:
        v.bad('crash:%s@%s:skipper' % (death['kind'], death['where']), 'text %r: %s' % (text, death['text'][-400:]))
        return v
    r = [e for e in events if e.get('ev') == 'r' and e.get('op') == 'parse_buf']
    diags = [(unhx(e['file']), e['line'], unhx(e['msg'])) for e in events if e.get('ev') == 'diag']
    v.nontrivial = True
    v.notes['malformed_unknown_items'] = 1
    if not r:
        v.bad('harness:short-log', 'no parse result')
    elif r[0]['rc'] != 1:
        v.bad('skipper:not-rejected:%s' % tag, 'malformed undeclared item under ignore-unknown: rc=%s; text %r' % (r[0]['rc'], text))
    elif not diags:
        v.bad('skipper:silent-reject:%s' % tag, 'malformed undeclared item rejected without a diagnostic; text %r' % text)
    elif any(f != '[buf]' for f, l, m in diags):
        v.bad('skipper:wrong-file', 'diagnostics %r' % diags[:2])
    elif any(l != badline for f, l, m in diags):
        v.bad('skipper:wrong-line:%s' % tag, 'malformed undeclared item: diagnostic %r, the offending token ends on line %d; text %r' % (diags[0], badline, text))
    return v


def gen(tier, seed):
    yield from skip_specs(tier, seed)
    rng = core.seeded_rng(seed, 'c06')
    n = 60000 if tier == 'quick' else 600000
    i = 0
    made = 0
    while made < n:
        i += 1
        c = gen_case(rng, i, want_accept=(i % 4 == 0))
        if c:
            made += 1
            yield c


def main_path(spec):
    """name under which the top-level text is given to cfg_parse(): short, or a relative path of more than 300 bytes"""
    if spec.get('entry') == 'file' and spec.get('seed', 0) % 4 == 1:
        return '/'.join(c * 110 for c in 'ABC') + '/main.conf'
    return 'main.conf'


def pretext_of(spec, decls):
    """the earlier accepted text: comments and blank lines, and every plain top-level section opened once with an empty body"""
    t = spec.get('pretext', '')
    for d in decls:
        if d.typ == 'sec' and not d.is_multi and not (d.flags & core.F_TITLE):
            t += '%s {\n}\n' % d.name
    return t


def script(spec):
    if 'skip' in spec:
        return skip_script(spec)
    decls = [D.from_json(j) for j in spec['decls']]
    files, flat, tags, eof = build(spec)
    lines, sid = schema.emit_schema(decls)
    d = spec['dir']
    L = ['mkdir %s' % hx(d)]
    for name, text in files.items():
        if name != 'main':
            L.append('mkfile %s %s' % (hx(d + '/' + name), hx(text)))
    mp = main_path(spec)
    if mp != 'main.conf':
        cur = d
        for part in mp.split('/')[:-1]:
            cur += '/' + part
            L.append('mkdir %s' % hx(cur))
    L.append('mkfile %s %s' % (hx(d + '/' + mp), hx(files['main'])))
    L.append('mkfile %s %s' % (hx(d + '/pre.conf'), hx(pretext_of(spec, decls))))
    L.append('chdir %s' % hx(d))
    L += lines
    L.append('init 0 %d 0' % sid)
    pre = spec.get('pre')
    if pre:
        L.append('parse_file 0 %s' % hx('pre.conf') if pre == 'file' else 'parse_%s 0 %s' % (pre, hx(pretext_of(spec, decls))))
        L.append('note prepared')
        if spec.get('seed', 0) % 3 == 0:
            L.append('seterrfunc 0 2')        # another error function from here on: every later diagnostic must arrive there
    if spec.get('failat'):
        L.append('failat %d' % spec['failat'])
    entry = spec.get('entry', 'buf')
    L.append('parse_file 0 %s' % hx(mp) if entry == 'file' else 'parse_%s 0 %s' % (entry, hx(files['main'])))
    return '\n'.join(L)


def judge(spec, events, death):
    if 'skip' in spec:
        return skip_judge(spec, events, death)
    v = Verdict()
    decls = [D.from_json(j) for j in spec['decls']]
    files, flat, tags, eof = build(spec)
    if death is not None:
        v.bad('crash:%s@%s' % (death['kind'], death['where']), 'main text %r: %s' % (files['main'][:200], death['text'][-400:]))
        return v
    model = schema.new_root(decls[:-1] + [D('include', 'func', cbs='')])      # include is a plain call for the model (the file's tokens follow in the stream)
    verdict, pos, it = model_lang.interpret(model, flat, 0, failat=spec.get('failat', 0))
    r = [e for e in events if e.get('ev') == 'r' and e.get('op') in ('parse_buf', 'parse_fp', 'parse_file')]
    entry = spec.get('entry', 'buf')
    if spec.get('pre'):
        if len(r) < 2:
            v.bad('harness:short-log', 'no parse result')
            return v
        if r[0]['rc'] != 0:
            v.bad('earlier-parse-rejected', 'an earlier text of comments, blank lines and empty plain sections was rejected (rc=%s)' % r[0]['rc'])
            return v
        cut = next(k for k, e in enumerate(events) if e.get('ev') == 'r' and e.get('op') in ('parse_buf', 'parse_fp', 'parse_file'))
        events = events[cut + 1:]
        r = r[1:]
        v.notes['second_parse_on_context'] = 1
    v.notes.setdefault('entry_points', set()).add(entry)
    diags = [(unhx(e['file']), e['line'], unhx(e['msg'])) for e in events if e.get('ev') == 'diag']
    if not r:
        v.bad('harness:short-log', 'no parse result')
        return v
    if spec.get('pre') and spec.get('seed', 0) % 3 == 0:
        v.notes['error_function_changed_between_parses'] = 1
        nh = len([e for e in events if e.get('ev') == 'handler' and e.get('h') == 2])
        if nh != len(diags):
            v.bad('wrong-error-function', '%d of %d diagnostics of the second parse went to the error function that had been replaced before it; text %r' % (len(diags) - nh, len(diags), files['main'][:300]))
            return v
    # first clause, independent of any model: a failed parse has delivered at least one diagnostic
    if r[0]['rc'] != 0 and not diags:
        why = it.why if verdict == 'reject' else verdict
        v.bad('silent-reject:%s' % why, 'text rejected (rc=%s) without any diagnostic; text %r' % (r[0]['rc'], files['main'][:300]))
        return v
    if verdict == 'unspec':
        v.skipped = True
        return v
    if verdict == 'accept':
        v.notes['accepted_cases'] = 1
        if r[0]['rc'] != 0:
            v.notes['model_accept_lib_reject'] = 1      # acceptance disagreement is C01's business
            v.skipped = True
            return v
        v.nontrivial = len(files) > 1 or '\n' in files['main'].strip()
        if diags:
            v.bad('diagnostic-on-accepted-parse:%s' % msg_class(diags[0][2]), 'accepted text delivers diagnostics %r; text %r' % (diags[:2], files['main'][:300]))
        return v
    v.notes['rejected_cases'] = 1
    v.notes.setdefault('reject_reasons', set()).add(it.why)
    if r[0]['rc'] == 0:
        v.notes['model_reject_lib_accept'] = 1
        v.skipped = True
        return v
    efile, eline = tags[pos] if pos < len(tags) else eof
    if pos < len(flat) and flat[pos][0] == 'lexerr-open':
        efile, eline = eof          # an unterminated string is noticed at the end of the input
    # the name of the top-level source: the buffer name, the name given to cfg_parse(); a bare stream has no name of its own (not judged)
    if efile == 'main':
        efile = {'buf': '[buf]', 'file': main_path(spec), 'fp': None}[entry]
    # non-trivial: something newline-bearing other than blank lines precedes the error point
    v.nontrivial = eline > 1 and (len(files) > 1 or any(c in files['main'] for c in '#/\\'))
    if r[0]['rc'] != 1:
        v.bad('wrong-return-code', 'rejected parse returned %s, not the parse-error code' % r[0]['rc'])
    if not diags:
        v.bad('silent-reject:%s' % it.why, 'text rejected (%s) without any diagnostic; text %r' % (it.why, files['main'][:300]))
        return v
    for f, l, m in diags:
        if efile is not None and f != efile:
            v.bad('wrong-file:%s:%s' % ('in-include' if efile not in ('[buf]', 'main.conf', main_path(spec)) else 'in-main', 'none' if f is None else 'other'),
                  'error (%s) at token %d ends in %s line %d, diagnostic %r names file %r line %s; main text %r' % (it.why, pos, efile, eline, m, f, l, files['main'][:300]))
            break
        if l != eline:
            v.bad('wrong-line:%s:%+d' % (it.why, max(-3, min(3, l - eline))),
                  'error (%s) at token %d ends in %s line %d, diagnostic %r says line %s; text %r' % (it.why, pos, efile, eline, m, l, files[tags[pos][0] if pos < len(tags) else 'main'][:400]))
            break
    return v


def msg_class(m):
    return m.split("'")[0].strip().replace(' ', '-')[:30]


def run(tier, seed, bindirs):
    t0 = time.time()
    res = core.explore('checks.c06', gen(tier, seed), bindirs, chunk=80)
    return core.finish(PROP, tier, seed, 'fault_enumeration', res, RULE, t0, floor=2000,
                       assumptions=['where the text must be rejected is decided by model_lang; cases on which model and library disagree about accept/reject are left to C01 and not judged here (counted)',
                                    'schemas contain no deprecated options (those legitimately produce diagnostics)'])
