"""C13 - including a file equals reading its text in place (DESIGN.md 7/C13)."""
import json, time, zlib
from vlib import core, schema
from vlib import gen as G
from vlib.core import hx, unhx, Verdict, F_LIST, F_MULTI, F_TITLE
from vlib.schema import D

PROP = 'C13'
VARIANTS = ['asan']
MAXDEPTH = 10

SUBSUB = [D('y', 'int', default=0), D('include', 'func', cbs='I')]
SEC = [D('x', 'int', default=9), D('xl', 'int', F_LIST, default=[3]), D('sub', 'sec', F_MULTI, sub=SUBSUB), D('include', 'func', cbs='I')]
DECLS = [D('i', 'int', default=1), D('f', 'float', default=0.5), D('b', 'bool', default=0), D('s', 'str', default='d'),
         D('il', 'int', F_LIST, default=[1, 2]), D('sl', 'str', F_LIST, default=['a']),
         D('sec', 'sec', F_MULTI | F_TITLE, sub=SEC), D('one', 'sec', 0, sub=[D('z', 'int', default=1), D('include', 'func', cbs='I')]),
         D('include', 'func', cbs='I')]

RULE = ('accepted texts over a fixed schema (scalars, lists, titled/multi/single sections that all declare include) split at item boundaries - also inside section bodies - into random '
        'include trees (depth 1..10 and chains up to the limit), files addressed relative to the working directory (also with a leading ~ that names no account), absolutely, or through 1-2 search-path directories (a decoy file of the same name in the directory added later, a directory of the same name in the one added first); the split parse must '
        'give the same tree as the flat text, leave include depth 0 and no open descriptor. Position cases: an error after an include (and inside included files) must carry the right file '
        'name and line. Failure matrix: missing file, ENOTDIR, dangling symlink, directory (also with trailing slash, through one and two symlinks), symlink loop, depth limit+1/+2, empty name, wrong arity, broken included file - 12+ failures in a '
        'row - each a reported parse error with descriptors balanced, then a good include into the same and a new context still works. '
        'non-trivial: include depth >= 2 or a failing include; distinct = case hash')


# ---- items

def gen_item(rng, decls, depth=0):
    d = rng.choice([x for x in decls if x.typ != 'func'])
    if d.typ == 'sec':
        head = d.name + (' ' + rng.choice(['a', 'b', '"c d"', 'T']) if d.flags & F_TITLE else '')
        body = [gen_item(rng, d.sub, depth + 1) for _ in range(rng.randint(0, 3))] if depth < 2 else []
        return ['sec', head, body]
    if d.is_list:
        op = rng.choice(['=', '+='])
        vals = ', '.join(G.rand_value(rng, d.typ)[1] if d.typ != 'str' else '"%s"' % rng.choice(['p', 'q r', 'x']) for _ in range(rng.randint(0, 3)))
        return ['leaf', '%s %s {%s}' % (d.name, op, vals)]
    v = G.rand_value(rng, d.typ)[1] if d.typ != 'str' else '"%s"' % rng.choice(['hello', 'a b', ''])
    return ['leaf', '%s = %s' % (d.name, v)]


def flat(items, ind=0):
    out = []
    for it in items:
        if it[0] == 'leaf':
            out.append('  ' * ind + it[1])
        else:
            out.append('  ' * ind + it[1] + ' {')
            out += flat(it[2], ind + 1)
            out.append('  ' * ind + '}')
    return out


class Splitter:
    def __init__(self, rng, mode, maxdepth):
        self.rng = rng
        self.mode = mode          # 'nosp' | 'sp'
        self.maxdepth = maxdepth
        self.files = []           # (path relative to the case dir, content)
        self.envs = []            # (variable, value) the text relies on
        self.n = 0
        self.deepest = 0

    def name_for(self, k):
        """-> (name to write in include(), path of the file relative to the case dir)"""
        r = self.rng.random()
        fn = 'f%d.conf' % k
        if self.mode == 'sp':
            sp = self.rng.choice(['sp1', 'sp2'])
            if r < 0.75:
                return fn, '%s/%s' % (sp, fn)
            return '@CWD@/@DIR@/%s/%s' % (sp, fn), '%s/%s' % (sp, fn)
        if r < 0.1:
            fn = '~f%d.conf' % k      # a tilde that names no account: an ordinary relative name
            return fn, fn
        if r < 0.6:
            return fn, fn
        if r < 0.8:
            return './sub/../' + fn, fn
        return '@CWD@/@DIR@/' + fn, fn

    def split(self, items, depth, p):
        """render items as lines, moving random runs of items into include files"""
        self.deepest = max(self.deepest, depth)
        out = []
        i = 0
        while i < len(items):
            if depth < self.maxdepth and self.rng.random() < p:
                run = self.rng.randint(1, min(3, len(items) - i))
                self.n += 1
                k = self.n
                name, path = self.name_for(k)
                content = self.split(items[i:i + run], depth + 1, p)
                tail = self.rng.choice(['\n', '\n', '', ' # last line, no newline', '\n/* ends in a comment */', '\n\n\n', ' // eof'])
                self.files.append((path, '\n'.join(content) + tail))
                r = self.rng.random()
                if r < 0.12 and ' ' not in name and '@' not in name:
                    # the name comes from the environment (the driver sets VERIF_INC_<k>)
                    self.envs.append(('VERIF_INC_%d' % k, name))
                    out.append('include(${VERIF_INC_%d})' % k if self.rng.random() < 0.5 else 'include("${VERIF_INC_%d}")' % k)
                else:
                    q = self.rng.choice(['"%s"', "'%s'", '%s']) if not any(c in name for c in ' @~') else '"%s"'
                    out.append('include(%s)' % (q % name))
                i += run
            else:
                it = items[i]
                if it[0] == 'leaf':
                    out.append(it[1])
                else:
                    out.append(it[1] + ' {')
                    out += ['  ' + l for l in self.split(it[2], depth, p)]
                    out.append('}')
                i += 1
        return out


def gen_split_case(rng, idx):
    mode = rng.choice(['nosp', 'nosp', 'sp'])
    items = [gen_item(rng, DECLS) for _ in range(rng.randint(2, 8))]
    r = rng.random()
    if r < 0.25:
        # a chain: each file holds one item and includes the next
        depth = rng.randint(2, MAXDEPTH)
        sp = Splitter(rng, mode, depth)
        leaves = [gen_item(rng, [d for d in DECLS if d.typ not in ('sec', 'func')]) for _ in range(depth + 1)]
        lines_for = None
        nxt = None
        for lvl in range(depth, 0, -1):
            sp.n += 1
            name, path = sp.name_for(sp.n)
            content = [leaves[lvl][1]] + ([nxt] if nxt else []) + ['# tail of level %d' % lvl]
            sp.files.append((path, '\n'.join(content) + '\n'))
            nxt = 'include("%s")' % name
        top = [leaves[0][1], nxt, 'i = 77']
        flat_items = []
        # order of effect: leaves[0], leaves[1], ..., leaves[depth], then i = 77
        flat_text = '\n'.join([l[1] for l in leaves] + ['i = 77']) + '\n'
        return {'kind': 'split', 'mode': mode, 'top': '\n'.join(top) + '\n', 'flat': flat_text, 'files': sp.files, 'depth': depth, 'dir': 'c%d' % idx}
    sp = Splitter(rng, mode, rng.randint(1, 4))
    top = sp.split(items, 0, rng.choice([0.3, 0.5, 0.8]))
    if mode == 'nosp' and rng.random() < 0.1:
        # without a search path any readable non-directory is read; the null device holds no text at all
        top.insert(rng.randint(0, len(top)), 'include("/dev/null")')
    return {'kind': 'split', 'mode': mode, 'top': '\n'.join(top) + '\n', 'flat': '\n'.join(flat(items)) + '\n', 'files': sp.files, 'depth': sp.deepest, 'dir': 'c%d' % idx,
            'envs': sp.envs}


def gen_pos_case(rng, idx):
    """an error after an include, or inside an included file: expected (file, line) known by construction"""
    pad = lambda n: ''.join(rng.choice(['\n', '# c\n', '// c\n', '/* c\n c */\n', 'i = %d\n' % rng.randint(0, 9), 's = "two\nlines"\n']) for _ in range(n))
    nested = rng.random() < 0.5
    inner_lines = pad(rng.randint(0, 4))
    files = [('inner.conf', inner_lines)]
    mid = pad(rng.randint(0, 3)) + ('include("inner.conf")\n' if nested else '') + pad(rng.randint(0, 3))
    where = rng.choice(['after', 'inside', 'section'])
    pre = pad(rng.randint(0, 4))
    post = pad(rng.randint(0, 3))
    if where == 'inside':
        files.append(('f.conf', mid + 'zz = 1\n'))
        top = pre + 'include("f.conf")\n' + post
        exp_file, exp_line = 'f.conf', mid.count('\n') + 1
    elif where == 'after':
        files.append(('f.conf', mid))
        top = pre + 'include("f.conf")\n' + post + 'zz = 1\n'
        exp_file, exp_line = None, (pre + post).count('\n') + 2
    else:
        files.append(('f.conf', 'x = 3\n' + pad(rng.randint(0, 2)).replace('i = ', 'x = ').replace('s = "two\nlines"', '# no s here\n')))
        top = pre + 'sec t {\n include("f.conf")\n' + ' qq = 1\n}\n'
        exp_file, exp_line = None, pre.count('\n') + 3
    via_file = rng.random() < 0.4
    return {'kind': 'pos', 'top': top, 'files': files, 'exp_file': exp_file, 'exp_line': exp_line, 'via_file': via_file, 'dir': 'p%d' % idx, 'where': where}


FAIL_KINDS = ['beside-includer', 'beside-includer-file', 'missing', 'enotdir', 'dangling', 'directory', 'directory-slash', 'dirlink', 'dirlink2', 'loop', 'deep11', 'deep12', 'empty-name', 'no-args', 'two-args', 'broken-file', 'open-string-file', 'missing-in-sp']


def gen_fail_case(rng, idx):
    seq = [rng.choice(FAIL_KINDS) for _ in range(rng.randint(12, 16))]
    for k in FAIL_KINDS:
        if rng.random() < 0.6 and k not in seq:
            seq.append(k)
    rng.shuffle(seq)
    return {'kind': 'fail', 'seq': seq, 'dir': 'x%d' % idx, 'sp': rng.random() < 0.3}


def gen(tier, seed):
    rng = core.seeded_rng(seed, 'c13')
    n = 5000 if tier == 'quick' else 60000
    for i in range(n):
        yield gen_split_case(rng, i)
    for i in range(1500 if tier == 'quick' else 20000):
        yield gen_pos_case(rng, i)
    for i in range(400 if tier == 'quick' else 5000):
        yield gen_fail_case(rng, i)


# ---- scripts

def fail_text(kind):
    return {
        'beside-includer': 'include("sub/wrap.conf")\n', 'beside-includer-file': 'include("sub/wrap.conf")\n',
        'missing': 'include("nosuch.conf")\n', 'enotdir': 'include("good.conf/x")\n', 'dangling': 'include("dangling.conf")\n',
        'directory': 'include("adir")\n', 'directory-slash': 'include("adir/")\n', 'dirlink': 'include("adirlink")\n', 'dirlink2': 'include("./sub/../adirlink2")\n', 'loop': 'include("loop1")\n', 'deep11': 'include("d11_0.conf")\n', 'deep12': 'include("d12_0.conf")\n',
        'empty-name': 'include("")\n', 'no-args': 'include()\n', 'two-args': 'include("good.conf", "good.conf")\n',
        'broken-file': 'include("broken.conf")\n', 'open-string-file': 'include("openstr.conf")\ni = 5\n', 'missing-in-sp': 'include("only-in-cwd.conf")\n',
    }[kind]


def script(spec):
    lines, sid = schema.emit_schema(DECLS)
    d = spec['dir']
    L = ['mkdir %s' % hx(d), 'mkdir %s' % hx(d + '/sp1'), 'mkdir %s' % hx(d + '/sp2'), 'mkdir %s' % hx(d + '/sub')]
    fix = lambda s: s.replace('@DIR@', d)
    if spec['kind'] == 'split':
        for path, content in spec['files']:
            L.append('mkfile %s %s' % (hx(d + '/' + path), hx(fix(content))))
            if path.startswith('sp2/') and zlib.crc32(path.encode()) % 2:
                L.append('mkdir %s' % hx(d + '/sp1/' + path[4:]))     # a directory of the same name in the directory searched first
            if path.startswith('sp1/') and zlib.crc32(path.encode()) % 2:
                L.append('mkfile %s %s' % (hx(d + '/sp2/' + path[4:]), hx('i = 31337\ns = "decoy"\n')))     # a file of the same name in the directory added second: never read
        L.append('chdir %s' % hx(d))
        for var, val in spec.get('envs', []):
            L.append('setenv %s %s' % (hx(var), hx(val)))
        L += lines
        L.append('init 0 %d 0' % sid)
        if spec['mode'] == 'sp':
            L.append('add_searchpath 0 %s' % hx('sp1'))
            L.append('add_searchpath 0 %s' % hx('@CWD@/%s/sp2' % d))
            if zlib.crc32(d.encode()) % 5 == 0:
                for k in range(70):       # many more directories after them: the first ones still have precedence
                    L.append('add_searchpath 0 %s' % hx('nodir%d' % k))
        L.append('mon')
        L.append('parse_buf 0 %s' % hx(fix(spec['top'])))
        L.append('mon')
        L.append('dump 0')
        L.append('init 1 %d 0' % sid)
        L.append('parse_buf 1 %s' % hx(spec['flat']))
        L.append('dump 1')
    elif spec['kind'] == 'pos':
        for path, content in spec['files']:
            L.append('mkfile %s %s' % (hx(d + '/' + path), hx(content)))
        L.append('mkfile %s %s' % (hx(d + '/top.conf'), hx(spec['top'])))
        L.append('chdir %s' % hx(d))
        L += lines
        L.append('init 0 %d 0' % sid)
        if spec['via_file']:
            L.append('parse_file 0 %s' % hx('top.conf'))
        else:
            L.append('parse_buf 0 %s' % hx(spec['top']))
        L.append('mon')
    else:
        L.append('mkfile %s %s' % (hx(d + '/good.conf'), hx('i = 42\n')))
        L.append('mkfile %s %s' % (hx(d + '/sp1/good.conf'), hx('i = 42\n')))
        L.append('mkfile %s %s' % (hx(d + '/only-in-cwd.conf'), hx('i = 43\n')))
        L.append('mkfile %s %s' % (hx(d + '/broken.conf'), hx('i = 1\ni = = 2\n')))
        L.append('mkfile %s %s' % (hx(d + '/openstr.conf'), hx('s = "never closed\n')))
        L.append('mkdir %s' % hx(d + '/adir'))
        # a file that exists only NEXT TO an included file (in sub/), not where relative names are looked up: including it by its bare name fails
        L.append('mkfile %s %s' % (hx(d + '/sub/wrap.conf'), hx('i = 7\ninclude("beside.conf")\n')))
        L.append('mkfile %s %s' % (hx(d + '/sub/beside.conf'), hx('i = 8\n')))
        L.append('symlink %s %s' % (hx('nowhere'), hx(d + '/dangling.conf')))
        L.append('symlink %s %s' % (hx('adir'), hx(d + '/adirlink')))           # a symlink to a directory
        L.append('symlink %s %s' % (hx('adirlink'), hx(d + '/adirlink2')))      # ... and a symlink to that
        L.append('symlink %s %s' % (hx('loop2'), hx(d + '/loop1')))
        L.append('symlink %s %s' % (hx('loop1'), hx(d + '/loop2')))
        for n in (11, 12):
            for k in range(n):
                nxt = 'include("d%d_%d.conf")\n' % (n, k + 1) if k + 1 < n else 'i = 99\n'
                L.append('mkfile %s %s' % (hx(d + '/d%d_%d.conf' % (n, k)), hx('# level %d\n%s' % (k, nxt))))
        if spec['sp']:
            # same fixtures reachable through the search path
            for nm in ('broken.conf', 'openstr.conf', 'dangling.conf', 'loop1', 'loop2', 'adir', 'adirlink', 'adirlink2'):
                L.append('symlink %s %s' % (hx('../' + nm), hx(d + '/sp1/' + nm)))
            for n in (11, 12):
                for k in range(n):
                    L.append('symlink %s %s' % (hx('../d%d_%d.conf' % (n, k)), hx(d + '/sp1/d%d_%d.conf' % (n, k))))
        L.append('chdir %s' % hx(d))
        L += lines
        L.append('init 0 %d 0' % sid)
        if spec['sp']:
            L.append('add_searchpath 0 %s' % hx('sp1'))
        L.append('mon')
        for k in spec['seq']:
            L.append('note fail')
            if k == 'beside-includer-file' and not spec['sp']:
                L.append('parse_file 0 %s' % hx('sub/wrap.conf'))        # (logged as parse_file; judged like the others)
            else:
                L.append('parse_buf 0 %s' % hx(fail_text(k)))
            L.append('mon')
        L.append('note good-same')
        L.append('parse_buf 0 %s' % hx('include("good.conf")\n'))
        L.append('get 0 int %s 0' % hx('i'))
        L.append('mon')
        L.append('note good-new')
        L.append('init 1 %d 0' % sid)
        if spec['sp']:
            L.append('add_searchpath 1 %s' % hx('sp1'))
        L.append('parse_buf 1 %s' % hx('i = 1\ninclude("good.conf")\n'))
        L.append('get 1 int %s 0' % hx('i'))
        L.append('mon')
    return '\n'.join(L)


def vals(tree):
    return json.dumps(schema.dump_values_only(tree), sort_keys=True)


def judge(spec, events, death):
    v = Verdict()
    kind = spec['kind']
    if death is not None:
        tag = kind
        if kind == 'fail':
            n = len([e for e in events if e.get('ev') == 'note' and e.get('t') == 'fail'])
            tag = 'fail:' + (spec['seq'][n - 1] if 0 < n <= len(spec['seq']) else '?')
        v.bad('crash:%s@%s:%s' % (death['kind'], death['where'], tag), death['text'][-500:])
        return v
    end = [e for e in events if e.get('ev') == 'endcase']
    if end and (end[0]['fds'] != end[0]['fds0'] or end[0]['files'] != 0 or end[0]['incptr'] != 0):
        v.bad('resources-at-end:%s' % kind, 'after freeing everything: fds %s (start %s), open library FILEs %s, include depth %s' % (
            end[0]['fds'], end[0]['fds0'], end[0]['files'], end[0]['incptr']))
    mons = [e for e in events if e.get('ev') == 'mon']
    if kind == 'split':
        rs = [e for e in events if e.get('ev') == 'r' and e.get('op') == 'parse_buf']
        ds = [e for e in events if e.get('ev') == 'dump']
        if len(rs) < 2 or len(ds) < 2:
            v.bad('harness:short-log', 'events missing')
            return v
        if rs[1]['rc'] != 0:
            v.skipped = True      # generator produced a flat text the parser rejects: nothing to compare
            return v
        v.nontrivial = spec['depth'] >= 2
        v.notes.setdefault('depths', set()).add(spec['depth'])
        v.notes.setdefault('modes', set()).add(spec['mode'])
        if rs[0]['rc'] != 0:
            v.bad('split-rejected:%s:depth%s' % (spec['mode'], 'deep' if spec['depth'] > 4 else spec['depth']),
                  'flat text accepted, include-split text rejected: %r' % [unhx(e['msg']) for e in events if e.get('ev') == 'diag'][:2])
            return v
        if vals(ds[0]['tree']) != vals(ds[1]['tree']):
            v.bad('split-differs:%s' % spec['mode'], 'include-split parse differs from the flat parse; top=%r' % spec['top'][:300])
        if len(mons) >= 2 and (mons[1]['incptr'] != 0 or mons[1]['fds'] != mons[0]['fds'] or mons[1]['files'] != mons[0]['files']):
            v.bad('split-leaves-includes-open', 'after an accepted parse: include depth %s, fds %s -> %s' % (mons[1]['incptr'], mons[0]['fds'], mons[1]['fds']))
    elif kind == 'pos':
        r = [e for e in events if e.get('ev') == 'r' and e.get('op') in ('parse_buf', 'parse_file')]
        diags = [(unhx(e['file']), e['line'], unhx(e['msg'])) for e in events if e.get('ev') == 'diag']
        v.nontrivial = True
        if not r or r[0]['rc'] != 1:
            v.bad('pos:not-rejected:%s' % spec['where'], 'text with an unknown option was not rejected (rc=%s)' % (r[0]['rc'] if r else None))
            return v
        if not diags:
            v.bad('pos:no-diagnostic:%s' % spec['where'], 'rejected without diagnostic')
            return v
        exp_file = spec['exp_file'] or ('top.conf' if spec['via_file'] else '[buf]')
        bad = [dg for dg in diags if dg[0] != exp_file or dg[1] != spec['exp_line']]
        if bad:
            what = 'file' if bad[0][0] != exp_file else 'line'
            v.bad('pos:wrong-%s:%s' % (what, spec['where']), 'error %s an include: diagnostic says %s:%s (%r), expected %s:%s; top=%r' % (
                spec['where'], bad[0][0], bad[0][1], bad[0][2], exp_file, spec['exp_line'], spec['top'][:200]))
        v.notes['position_cases'] = 1
    else:
        groups = []
        for e in events:
            if e.get('ev') == 'note':
                groups.append([e['t']])
            elif groups:
                groups[-1].append(e)
        base = mons[0] if mons else None
        fi = 0
        v.nontrivial = True
        for g in groups:
            r = [e for e in g[1:] if e.get('ev') == 'r' and e.get('op') in ('parse_buf', 'parse_file')]
            m = [e for e in g[1:] if e.get('ev') == 'mon']
            dg = [e for e in g[1:] if e.get('ev') == 'diag']
            if g[0] == 'fail':
                k = spec['seq'][fi]
                fi += 1
                if k == 'missing-in-sp' and not spec['sp']:
                    # without a search path the file is found relative to the working directory
                    if not r or r[0]['rc'] != 0:
                        v.bad('fail:relative-include-refused', 'include of a file in the working directory failed')
                    continue
                v.notes['failing_includes'] = v.notes.get('failing_includes', 0) + 1
                v.notes.setdefault('failure_kinds', set()).add(k)
                if not r or r[0]['rc'] != 1:
                    v.bad('fail:not-an-error:%s' % k, 'include failure %s gives rc=%s, expected the parse-error code' % (k, r[0]['rc'] if r else None))
                elif not dg:
                    v.bad('fail:no-diagnostic:%s' % k, 'include failure %s is not reported' % k)
                if m and base and (m[0]['fds'] != base['fds'] or m[0]['files'] != base['files'] or m[0]['incptr'] != 0):
                    v.bad('fail:leaves-open:%s' % k, 'after include failure %s: fds %s (was %s), library FILEs %s, include depth %s' % (
                        k, m[0]['fds'], base['fds'], m[0]['files'], m[0]['incptr']))
                    base = m[0]
            else:
                gt = [e for e in g[1:] if e.get('ev') == 'get']
                if not r or r[0]['rc'] != 0 or not gt or gt[0]['v'] != 42:
                    v.bad('fail:capacity-lost:%s' % g[0], 'after %d failing includes %r a good include (%s) fails: rc=%s diags=%r' % (
                        len(spec['seq']), spec['seq'], g[0], r[0]['rc'] if r else None, [unhx(e['msg']) for e in dg][:2]))
    return v


def run(tier, seed, bindirs):
    t0 = time.time()
    res = core.explore('checks.c13', gen(tier, seed), bindirs, chunk=40)
    return core.finish(PROP, tier, seed, 'exploration', res, RULE, t0, floor=500,
                       assumptions=['no permission-based failure cases (the sandbox runs as root)', 'tilde forms of include names are covered by C17'])
