"""C08 - a parse depends only on its own input, not on earlier parses (DESIGN.md 7/C08)."""
import zlib, itertools, json, os, time
from vlib import core, schema
from vlib.core import hx, unhx, Verdict, F_LIST, F_MULTI, F_TITLE
from vlib.schema import D

PROP = 'C08'
VARIANTS = ['asan']
ISOLATE = True

DECLS = [D('i', 'int', default=1), D('f', 'float', default=0.5), D('s', 'str', default='dflt'), D('l', 'int', F_LIST, default=[1, 2]),
         D('sec', 'sec', F_MULTI | F_TITLE, sub=[D('x', 'int', default=9)]), D('include', 'func', cbs='I'), D('dep', 'int', core.F_DEPRECATED, 3), D('depfn', 'func', core.F_DEPRECATED, cbs='F'), D('depsec', 'sec', core.F_DEPRECATED, sub=[D('x', 'int', default=0)])]

FILES = {
    'good.conf': 'l = {7, 8}\n',
    'bad.conf': 'i = 3\ni = = 4\n',
    'n1.conf': '# level 1\ninclude("n2.conf")\n',
    'n2.conf': 'include("n3.conf")\n',
    'n3.conf': 's = "deep"\nl = {1, oops}\n',
    'self.conf': 'i = 2\ninclude("self.conf")\n',
    'openstr.conf': 's = "never closed\n',
    'opencomment.conf': 'i = 4 /* never closed\n',
    'opensq.conf': "s = 'never closed\n",
    'incbad.conf': 'i = 6\ninclude("n1.conf")\n',
    'spdir/good.conf': 'l = {70, 80}\ns = "from the search path"\n',      # same name as the file in the working directory, other content
    'spdir2/good.conf': 'l = {90}\ns = "from another search path"\n',
}
# a chain that uses every include level there is: any level left occupied by an earlier parse makes it fail
for _k in range(1, 11):
    FILES['c%d.conf' % _k] = ('l += {%d}\n' % _k) + ('include("c%d.conf")\n' % (_k + 1) if _k < 10 else 's = "bottom"\n')

# history events: name -> script lines (context 0 exists; context 1 is created on demand by 'second')
EVENTS = {
    'ok': ['parse_buf 0 %s' % hx('i = 11\nl += {5}\n')],
    'open-dq': ['parse_buf 0 %s' % hx('s = "abc')],
    'open-sq': ['parse_buf 0 %s' % hx("s = 'abc")],
    'open-comment': ['parse_buf 0 %s' % hx('i = 2 /* open')],
    'bad-escape': ['parse_buf 0 %s' % hx('s = "a\\9b"\ni = 3\n')],
    'bad-octal': ['parse_buf 0 %s' % hx('s = "a\\777b"')],
    'fail-in-include-1': ['parse_buf 0 %s' % hx('include("bad.conf")\ni = 12\n')],
    'fail-in-include-3': ['parse_buf 0 %s' % hx('include("n1.conf")\n')],
    'self-include': ['parse_buf 0 %s' % hx('include("self.conf")\n')],
    'int-range': ['parse_buf 0 %s' % hx('i = 99999999999999999999\n')],
    'float-range': ['parse_buf 0 %s' % hx('f = 1e999\n')],
    'missing-include': ['parse_buf 0 %s' % hx('include("missing.conf")\n')],
    'reinit': ['free 0', 'init 0 @SID 0'],
    'second': ['init? 1 @SID 0', 'parse_buf 1 %s' % hx('i = 7\nsec q { x = 1 }\n')],
    'eof-in-section': ['parse_buf 0 %s' % hx('sec t { x = ')],
    'unknown': ['parse_buf 0 %s' % hx('zz = 1\n')],
    'file-open-dq': ['parse_file 0 %s' % hx('openstr.conf')],
    'file-open-comment': ['parse_file 0 %s' % hx('opencomment.conf')],
    'fp-open-sq': ['parse_fp 0 %s' % hx("s = 'abc")],
    'eof-in-list': ['parse_buf 0 %s' % hx('l = {1, 2')],
    # rejected between the '=' of a list and its first accepted value: nothing was stored
    'long-string': ['parse_buf 0 %s' % hx('s = "%s"\ni = 4\n' % ('q' * 9000))],             # accepted; the scanner's token buffer has grown
    'long-comment-bad': ['parse_buf 0 %s' % hx('/* %s */\ni = = 4\n' % ('c ' * 4500))],      # rejected after a long comment
    'depfn-call': ['parse_buf 0 %s' % hx('depfn(a)\ndepsec { x = 1 }\n')],                  # accepted, with deprecation notices for a function and a section
    'dep-parse': ['parse_buf 0 %s' % hx('dep = 1\n')],                          # accepted, with the deprecation notice
    'include-via-searchpath': ['init? 1 @SID 0', 'add_searchpath 1 %s' % hx('spdir'), 'parse_buf 1 %s' % hx('include("good.conf")\n')],
    'eof-after-eq': ['parse_buf 0 %s' % hx('l =')],
    'stray-after-eq': ['parse_buf 0 %s' % hx('l = }')],
    'range-first-value': ['parse_buf 0 %s' % hx('l = 99999999999999999999\n')],
    'range-first-braced': ['parse_buf 0 %s' % hx('l = {99999999999999999999, 1}\n')],
    'fp-fail-in-include-1': ['parse_fp 0 %s' % hx('include("bad.conf")\ni = 12\n')],
    'fp-fail-in-include-3': ['parse_fp 0 %s' % hx('i = 1\ninclude("n1.conf")\n')],
    'file-fail-in-include-3': ['parse_file 0 %s' % hx('incbad.conf')],
    'eof-in-call': ['parse_buf 0 %s' % hx('include("good.conf"')],
    'bare-open-dq': ['parse_buf 0 %s' % hx('s = "')],
    'bare-open-sq': ['parse_buf 0 %s' % hx("s = '")],
    'bare-open-comment': ['parse_buf 0 %s' % hx('i = 4 /*')],
    'eof-in-call-args': ['parse_buf 0 %s' % hx('include("good.conf", "x"')],
}
QUICK_EVENTS = ['bad-octal', 'depfn-call', 'bare-open-dq', 'bare-open-comment', 'eof-in-call-args', 'ok', 'open-dq', 'open-sq', 'open-comment', 'bad-escape', 'fail-in-include-1', 'fail-in-include-3', 'self-include', 'int-range',
                'float-range', 'missing-include', 'reinit', 'second', 'eof-in-section', 'file-open-dq', 'eof-in-list', 'fp-fail-in-include-1', 'fp-fail-in-include-3', 'file-fail-in-include-3', 'eof-after-eq', 'range-first-value', 'dep-parse', 'include-via-searchpath', 'long-string', 'long-comment-bad']

# events that are rejected before anything is stored: after a history made of these alone, the history's own context must give
# the values a fresh context gives for the same probe sequence
NOEFFECT = {'open-dq', 'open-sq', 'bare-open-dq', 'bare-open-sq', 'int-range', 'float-range', 'missing-include', 'unknown', 'eof-after-eq', 'stray-after-eq',
            'range-first-value', 'range-first-braced', 'bad-escape', 'bad-octal', 'fp-open-sq', 'file-open-dq'}

PROBES = [
    'i = 5\n',
    's = "e\\tsc\\x41\\101 ${VERIF_C08_UNSET:-dflt}"\n',
    '# comment\n/* c */ i = 6 // t\n',
    'include("good.conf")\ni = 8\n',
    'l += {3}\n',
    'sec a { x = 2 }\nsec b { }\n',
    'i = 2147483647\nf = 2.5\n',
    'zz = 1\n',
    "s = 'single \\' quoted'\n",
    'i = 1\n\nl = {1,\n oops}\n',
    'include("n1.conf")\n',
    'include("c1.conf")\n',
    'dep = 4\ni = 2\n',
    'depfn(b, c)\ndepsec { x = 2 }\ni = 6\n',
    'include("good.conf")\ni = 3\n',          # (probe 14) parsed into a context that has its own search path, see PROBE_SP
]
PROBE_SP = {14: 'spdir2'}                        # probe -> search directory given to the probe's context (holds another good.conf)

RULE = ('all histories up to length N over %d prior events (accepted parse; parse ending inside "...", \'...\', /*...; lexer errors; failure in an included file at depth 1 and 3 through cfg_parse_buf, cfg_parse_fp and cfg_parse; '
        'self-include to the depth limit; integer/float range failure; missing include; EOF inside a section/list/call; file/stream variants; root free + re-init; second context), '
        'one process per history, followed by %d probe parses into contexts that hold nothing from the history (one created before it, one after); each probe result '
        '(return code, full tree, diagnostics with file and line) must equal its result in a fresh process. Two-context clause: interleaved parses into two contexts vs. solo runs. '
        'non-trivial: the history contains an aborted parse; distinct = history' % (len(EVENTS), len(PROBES)))


def prepare_files(d):
    for name, text in FILES.items():
        os.makedirs(os.path.dirname(os.path.join(d, name)), exist_ok=True)
        with open(os.path.join(d, name), 'w') as f:
            f.write(text)


def probe_lines(sid, k, ctx):
    sp = ['add_searchpath %d %s' % (ctx, hx(PROBE_SP[k]))] if k in PROBE_SP else []
    return ['note probe%d' % k, 'init? %d %d 0' % (ctx, sid)] + sp + ['parse_buf %d %s' % (ctx, hx(PROBES[k])), 'dump %d' % ctx, 'mon', 'free %d' % ctx]


def same_order(spec):
    """order in which the probes go into the history's own context: the natural one, or appending ones first (before any probe re-assigns the lists)"""
    n = len(PROBES)
    if spec.get('so', 0) == 1:
        first = [4, 5, 0]
        return first + [k for k in range(n) if k not in first and k not in PROBE_SP]
    return [k for k in range(n) if k not in PROBE_SP]


def script(spec):
    lines, sid = schema.emit_schema(DECLS)
    lines.append('init 0 %d 0' % sid)
    lines.append('init 3 %d 0' % sid)          # a context created before the history, never parsed into by it
    if spec.get('kind') == 'two':
        for ctx, text in spec['steps']:
            lines.append('init? %d %d 0' % (ctx, sid))
            lines.append('parse_buf %d %s' % (ctx, hx(text)))
        lines.append('note final')
        for ctx in sorted(set(c for c, _ in spec['steps'])):
            lines.append('dump %d' % ctx)
        return '\n'.join(lines).replace('init? ', 'initq ')
    for ev in spec['hist']:
        for l in EVENTS[ev]:
            lines.append(l.replace('@SID', str(sid)))
    lines.append('note history-done')
    lines.append('mon')
    # the name the context carries: a stream parsed next keeps it, so its diagnostics show it
    lines += ['note samefp', 'initq 0 %d 0' % sid, 'parse_fp 0 %s' % hx('zz = 1\n')]
    for k in spec['probes']:
        lines += probe_lines(sid, k, 3 if (k == spec['probes'][0] and spec.get('pre', True)) else 2)
    # the same probes into the history's own context: values accumulate there by design, but whether the text is accepted
    # and what is reported must not depend on the aborted parses before it
    for k in (same_order(spec) if spec['probes'] == list(range(len(PROBES))) else [k for k in spec['probes'] if k not in PROBE_SP]):
        lines += ['note same%d' % k, 'initq 0 %d 0' % sid, 'parse_buf 0 %s' % hx(PROBES[k]), 'dump 0']
    return '\n'.join(lines).replace('init? ', 'initq ')


def probe_result(evs):
    """(rc, tree(values+flags), diags) of one probe's event group"""
    r = [e for e in evs if e.get('ev') == 'r' and e.get('op') == 'parse_buf']
    d = [e for e in evs if e.get('ev') == 'dump']
    diags = [(unhx(e['file']), e['line'], unhx(e['msg'])) for e in evs if e.get('ev') == 'diag']
    return (r[0]['rc'] if r else None, json.dumps(strip(d[0]['tree']), sort_keys=True) if d else None, diags)


def strip(tree):
    return schema.dump_values_only(tree)


def groups_of(events):
    g = {}
    cur = None
    for e in events:
        if e.get('ev') == 'note':
            cur = e['t']
            g[cur] = []
        elif cur is not None:
            g[cur].append(e)
    return g


def judge(spec, events, death):
    v = Verdict()
    fresh = core._W['opts']['fresh']
    if spec.get('kind') == 'two':
        return judge_two(spec, events, death, v)
    hist = spec['hist']
    aborted = [h for h in hist if h not in ('ok', 'reinit', 'second', 'dep-parse', 'depfn-call', 'include-via-searchpath', 'long-string')]
    g = groups_of(events)
    if death is not None:
        stage = 'history' if 'history-done' not in g else 'probe'
        v.bad('crash:%s@%s:%s:after-%s' % (death['kind'], death['where'], stage, hist[-1] if stage == 'probe' else '+'.join(hist)),
              'history %r: %s' % (hist, death['text'][-500:]))
        return v
    mon = [e for e in g.get('history-done', []) if e.get('ev') == 'mon']
    if mon:
        v.notes.setdefault('residual_scanner_states', set()).add('startcond=%d,bufdepth=%d,incptr=%d' % (mon[0]['startcond'], mon[0]['bufdepth'], mon[0]['incptr']))
    for k in spec['probes']:
        evs = g.get('probe%d' % k)
        if evs is None:
            v.bad('harness:short-log', 'probe %d missing' % k)
            return v
        got = probe_result(evs)
        want = fresh[str(k)]
        v.notes['probes_compared'] = v.notes.get('probes_compared', 0) + 1
        if got[0] != want[0] or got[1] != want[1] or [list(x) for x in got[2]] != [list(x) for x in want[2]]:
            what = 'rc' if got[0] != want[0] else 'values' if got[1] != want[1] else 'diagnostics'
            v.bad('after-%s:probe%d:%s' % (hist[-1], k, what),
                  'history %r then probe %r: %s differ from the fresh-process result: got rc=%s diags=%r, fresh rc=%s diags=%r' % (
                      hist, PROBES[k], what, got[0], got[2][:2], want[0], want[2][:2]))
    for k in spec['probes']:
        evs = g.get('same%d' % k)
        if evs is None:
            continue
        r = [e for e in evs if e.get('ev') == 'r' and e.get('op') == 'parse_buf']
        diags = [(unhx(e['file']), e['line'], unhx(e['msg'])) for e in evs if e.get('ev') == 'diag']
        want = fresh[str(k)]
        v.notes['same_context_probes'] = v.notes.get('same_context_probes', 0) + 1
        if not r or r[0]['rc'] != want[0] or [list(x) for x in diags] != [list(x) for x in want[2]]:
            v.bad('same-context:after-%s:probe%d' % (hist[-1], k), 'history %r then probe %r into the SAME context: rc=%s diags=%r, in a fresh process rc=%s diags=%r' % (
                hist, PROBES[k], r[0]['rc'] if r else None, diags[:2], want[0], want[2][:2]))
    # the source name left in the history's own context: that of the last top-level source, whatever happened in its includes
    name = None
    for h in hist:
        for l in EVENTS[h]:
            w = l.split()
            if w[0] == 'free' and w[1] == '0':
                name = None
            elif w[0] == 'parse_buf' and w[1] == '0':
                name = '[buf]'
            elif w[0] == 'parse_file' and w[1] == '0':
                name = bytes.fromhex(w[2][1:]).decode('latin-1')
            elif w[0] == 'parse_fp' and w[1] == '0':
                name = name or 'FILE'
    fpd = [unhx(e['file']) for e in g.get('samefp', []) if e.get('ev') == 'diag']
    if fpd:
        v.notes['context_name_checks'] = v.notes.get('context_name_checks', 0) + 1
        if any(f != (name or 'FILE') for f in fpd):
            v.bad('same-context-name:after-%s' % hist[-1], 'history %r: a stream parsed next into the same context reports under %r, the last top-level source was %r' % (hist, fpd[0], name or 'FILE'))
    # values in the history's own context, when the history stored nothing
    sf = core._W['opts'].get('same_fresh')
    if sf and hist and all(h in NOEFFECT for h in hist) and spec['probes'] == list(range(len(PROBES))):
        for k in same_order(spec):
            d = [e for e in g.get('same%d' % k, []) if e.get('ev') == 'dump']
            if not d:
                break
            got = json.dumps(schema.dump_values_only(d[0]['tree']), sort_keys=True)
            v.notes['same_context_value_checks'] = v.notes.get('same_context_value_checks', 0) + 1
            if got != sf[spec.get('so', 0)][k]:
                v.bad('same-context-values:after-%s:probe%d' % (hist[-1], k), 'history %r (texts rejected before anything is stored) then probe %r into the SAME context: the values differ from '
                      'those of the same probe sequence in a fresh process' % (hist, PROBES[k]))
                break
    v.nontrivial = bool(aborted)
    return v


def judge_two(spec, events, death, v):
    solo = core._W['opts']['solo']
    if death is not None:
        v.bad('crash:%s@%s:two-contexts' % (death['kind'], death['where']), death['text'][-500:])
        return v
    g = groups_of(events)
    dumps = [e for e in g.get('final', []) if e.get('ev') == 'dump']
    ctxs = sorted(set(c for c, _ in spec['steps']))
    for ctx, d in zip(ctxs, dumps):
        texts = [t for c, t in spec['steps'] if c == ctx]
        want = solo[json.dumps(texts)]
        got = json.dumps(strip(d['tree']), sort_keys=True)
        v.notes['contexts_compared'] = v.notes.get('contexts_compared', 0) + 1
        if got != want:
            v.bad('two-contexts:values', 'interleaving %r: context %d differs from its solo run' % (spec['steps'], ctx))
    v.nontrivial = True
    return v


TWO_TEXTS = ['i = 5\n', 'l += {9}\n', 'sec a { x = 3 }\n', 's = "x', 'include("good.conf")\n', 'include("bad.conf")\n', 'i = 99999999999999999999\n', 'l = {}\n', 'sec a { }\n']


def two_specs(rng, n):
    for _ in range(n):
        steps = [[rng.choice([0, 1]), rng.choice(TWO_TEXTS)] for _ in range(rng.randint(2, 6))]
        yield {'kind': 'two', 'steps': steps}


def gen(tier, seed):
    evs = QUICK_EVENTS
    depth = 3 if tier == 'quick' else 4
    allp = list(range(len(PROBES)))
    for d in range(1, depth + 1):
        for h in itertools.product(evs, repeat=d):
            yield {'hist': list(h), 'probes': allp, 'pre': True, 'so': (zlib.crc32(' '.join(h).encode()) >> 3) & 1 if d > 1 else 1}
            if d == 1:
                yield {'hist': list(h), 'probes': allp, 'pre': True, 'so': 0}
    rng = core.seeded_rng(seed, 'c08')
    # longer random histories
    for _ in range(300 if tier == 'quick' else 6000):
        h = [rng.choice(list(EVENTS)) for _ in range(rng.randint(3, 6))]
        p = list(allp)
        rng.shuffle(p)
        yield {'hist': h, 'probes': p, 'pre': rng.random() < 0.5}
    yield from two_specs(rng, 200 if tier == 'quick' else 3000)


def compute_fresh(bindir, cwd):
    fresh = {}
    lines, sid = schema.emit_schema(DECLS)
    for k in range(len(PROBES)):
        body = '\n'.join(lines + probe_lines(sid, k, 2)).replace('init? ', 'initq ')
        out = core.run_batch(bindir, [(0, body)], cwd=cwd)
        evs, death = out[0]
        if death is not None:
            raise core.HarnessError('probe %d dies in a fresh process: %s' % (k, death['kind']))
        g = groups_of(evs)
        fresh[str(k)] = probe_result(g['probe%d' % k])
    return fresh


def compute_solo(bindir, cwd, specs):
    solo = {}
    lines, sid = schema.emit_schema(DECLS)
    need = set()
    for sp in specs:
        for ctx in set(c for c, _ in sp['steps']):
            need.add(json.dumps([t for c, t in sp['steps'] if c == ctx]))
    for key in sorted(need):
        texts = json.loads(key)
        body = lines + ['init 0 %d 0' % sid] + ['parse_buf 0 %s' % hx(t) for t in texts] + ['note final', 'dump 0']
        out = core.run_batch(bindir, [(0, '\n'.join(body))], cwd=cwd)
        evs, death = out[0]
        if death is not None:
            raise core.HarnessError('solo run dies: %s' % death['kind'])
        d = [e for e in evs if e.get('ev') == 'dump']
        solo[key] = json.dumps(strip(d[-1]['tree']), sort_keys=True)
    return solo


def make_opts(bindirs, specs=None):
    cwd = core.mktemp_dir('verif_c08_')
    prepare_files(cwd)
    opts = {'cwd': cwd, 'solo_timeout': 60}
    opts['fresh'] = compute_fresh(bindirs['asan'], cwd)
    # reference for the own-context value comparison: the probe sequence after an empty history
    opts['same_fresh'] = []
    for so in (0, 1):
        body = script({'hist': [], 'probes': list(range(len(PROBES))), 'pre': True, 'so': so})
        out = core.run_batch(bindirs['asan'], [(0, body)], cwd=cwd)
        evs, death = out[0]
        if death is not None:
            raise core.HarnessError('probe sequence dies in a fresh process: %s' % death['kind'])
        g = groups_of(evs)
        opts['same_fresh'].append({k: json.dumps(schema.dump_values_only([e for e in g['same%d' % k] if e.get('ev') == 'dump'][0]['tree']), sort_keys=True) for k in range(len(PROBES)) if k not in PROBE_SP})
    opts['solo'] = compute_solo(bindirs['asan'], cwd, specs or [])
    return opts


def replay_opts(bindirs):
    # the replayed spec may be a two-context one: compute all solo runs lazily for the fixed text pool is too much; use the spec
    return make_opts(bindirs, REPLAY_SPECS)


REPLAY_SPECS = []


def replay(path, bindirs):
    with open(path) as f:
        rp = json.load(f)
    if rp['spec'].get('kind') == 'two':
        REPLAY_SPECS.append(rp['spec'])
    return core.replay('checks.c08', path, bindirs)


def run(tier, seed, bindirs):
    t0 = time.time()
    specs = list(gen(tier, seed))
    opts = make_opts(bindirs, [s for s in specs if s.get('kind') == 'two'])
    res = core.explore('checks.c08', specs, bindirs, chunk=20, opts=opts)
    return core.finish(PROP, tier, seed, 'exploration', res, RULE, t0, floor=200,
                       assumptions=['the fresh-process result of each probe is taken from the same build (differential: real code vs real code)',
                                    'residual scanner states (start condition, buffer depth, include depth) after each history are recorded as evidence only; the verdict is behavioural'],
                       more={'events': len(EVENTS), 'probes': len(PROBES), 'fresh_results': {k: [v[0], len(v[2])] for k, v in opts['fresh'].items()}})
