"""C17 - file names resolve deterministically via search path and tilde (DESIGN.md 7/C17)."""
import itertools, os, pwd, time
from vlib import core, schema
from vlib.core import hx, unhx, Verdict
from vlib.schema import D

PROP = 'C17'
VARIANTS = ['asan', 'msan', 'plain']
INNER = [D('i', 'int', default=-1), D('include', 'func', cbs='I')]
DECLS = [D('i', 'int', default=-1), D('include', 'func', cbs='I'),
         D('one', 'sec', 0, sub=INNER + [D('deep', 'sec', 0, sub=INNER)]), D('multi', 'sec', core.F_MULTI, sub=INNER)]
HOME = pwd.getpwuid(os.geteuid()).pw_dir
USERS = [p.pw_name for p in pwd.getpwall() if p.pw_name.isalnum() and not p.pw_name.isdigit()][:3] or ['root']

RULE = ('all search-path sequences up to length N over a pool of directories (existing, missing, duplicated, tilde-prefixed, absolute, symlinked, trailing slash, a literal "~nouser" directory) x '
        'target names placed as regular file / directory / symlink / dangling symlink / device node / absent in those directories x name forms (relative, with sub-directory, absolute, missing absolute, empty, '
        '~, ~/x, ~user, ~user/x, ~nouser/x). Oracle: model_fs (first directory in order added holding a regular file; absolute bypass; result = dir "/" name; tilde via the passwd database) '
        'evaluated on the real fixture tree; cfg_parse(name) and include(name) must load the file the model names (distinct marker per file). Runs on ASan+UBSan and MemorySanitizer builds, '
        'a sample under valgrind memcheck. non-trivial: >= 2 directories or a tilde form; distinct = (path sequence, name)')


def build_fixture(root):
    """create the fixture tree; returns marker map path -> int"""
    mk = {}
    counter = [100]

    def f(path):
        counter[0] += 1
        with open(os.path.join(root, path), 'w') as fh:
            fh.write('i = %d\n' % counter[0])
        mk[path] = counter[0]
    for d in ('d1', 'd2', 'd3', 'd2/sub', 'd3/sub', '~nouser', 'd1/t3.conf', 'cwdsub'):
        os.makedirs(os.path.join(root, d), exist_ok=True)
    for p in ('d1/t1.conf', 'd2/t1.conf', 'd3/t1.conf', 'd3/t2.conf', 'd2/t3.conf', 'd3/t4.conf', 'd3/t5.conf', 'd2/sub/t.conf', 'd3/sub/t.conf',
              '~nouser/t1.conf', 't1.conf', 'tcwd.conf', 'cwdsub/t.conf', 'd3/real.conf'):
        f(p)
    os.symlink('../d3/real.conf', os.path.join(root, 'd1/t4.conf'))      # symlink to a regular file
    os.symlink('nowhere', os.path.join(root, 'd2/t4.conf'))             # dangling
    os.symlink('nowhere', os.path.join(root, 'd1/t5.conf'))
    os.symlink('d3', os.path.join(root, 'lnk'))
    os.symlink('../d2', os.path.join(root, 'd1/t6.conf'))               # symlink to a directory
    f('d3/t6.conf')
    os.symlink('loopdir2', os.path.join(root, 'loopdir'))
    os.symlink('loopdir', os.path.join(root, 'loopdir2'))
    os.symlink('/dev/null', os.path.join(root, 'd1/t7.conf'))           # neither a regular file nor a directory (a device node, reached through a symlink)
    os.symlink('/dev/null', os.path.join(root, 'd2/t7.conf'))
    f('d3/t7.conf')
    return mk


def tilde(name):
    """model of tilde expansion"""
    if not name.startswith('~'):
        return name
    rest = name[1:]
    if rest == '' or rest.startswith('/'):
        return HOME + rest
    user, _, tail = rest.partition('/')
    tail = '/' + tail if '/' in rest else ''
    try:
        home = pwd.getpwnam(user).pw_dir
    except KeyError:
        return name
    return home + tail


def resolve(root, dirs, name):
    """model of search-path resolution -> (result string or None, real path or None)"""
    if name.startswith('/'):
        return (name, name) if os.path.isfile(name) else (None, None)
    for d in dirs:
        stored = tilde(d)
        cand = stored + '/' + name
        real = os.path.join(root, cand)
        if os.path.isfile(real):
            return cand, real
    return None, None


def marker_of(real):
    try:
        with open(real) as fh:
            return int(fh.read().split('=')[1])
    except Exception:
        return None


def pool(root):
    up = '/..' * (HOME.count('/'))
    return ['d1', 'd2', 'd3', 'missing', 'd1/', root + '/d3', '~' + up + root + '/d2', '~%s%s%s/d1' % (USERS[0], '/..' * pwd.getpwnam(USERS[0]).pw_dir.count('/'), root),
            '.', '~nouser', 'lnk', './d2/../d2', 'd1/t3.conf', '', 'd3//', '../' + os.path.basename(root) + '/d2',
            'd3/t2.conf', 'loopdir', 'x' * 5000]        # a regular file used as a directory (ENOTDIR), a symlink loop (ELOOP), a name too long


def names(root):
    up = '/..' * (HOME.count('/'))
    return ['t1.conf', 't2.conf', 't3.conf', 't4.conf', 't5.conf', 't6.conf', 't7.conf', '/dev/null', 'sub/t.conf', 'nosuch.conf', '', 'sub', './t1.conf', '../d3/t2.conf',
            root + '/d2/t1.conf', root + '/d2/nosuch.conf', root + '/d2', '/', 'tcwd.conf',
            '~' + up + root + '/d2/t1.conf']        # a tilde form of an existing file: with a search path it is a relative name like any other


def tilde_names(root):
    up = '/..' * (HOME.count('/'))
    u = USERS[0]
    uup = '/..' * pwd.getpwnam(u).pw_dir.count('/')
    return ['~', '~/', '~/x', '~' + up + root + '/t1.conf', '~' + u, '~' + u + '/x/y', '~%s%s%s/tcwd.conf' % (u, uup, root), '~nouser', '~nouser/t1.conf', '~nouser/zz',
            '~~', '~/~', 'a~b', '', 'plain/path', '~' + USERS[-1], '~' + USERS[-1] + '/', '~' + 'x' * 40, '~' + u + 'x', '~' + u[:-1] if len(u) > 1 else '~q']


def gen(tier, seed):
    root = core._W.get('opts', {}).get('cwd') or GEN_ROOT[0]
    P = pool(root)
    maxlen = 3 if tier == 'quick' else 4
    seqs = [()]
    for n in range(1, maxlen + 1):
        seqs += list(itertools.product(range(len(P)), repeat=n))
    N = names(root)
    for s in seqs:
        yield {'kind': 'sp', 'dirs': [P[k] for k in s], 'names': N}
    for nm in tilde_names(root):
        yield {'kind': 'tilde', 'name': nm}
    # "~" is the home of the *effective* user
    others = [p for p in pwd.getpwall() if p.pw_uid not in (0, os.geteuid()) and p.pw_dir != HOME][:3]
    if os.geteuid() == 0:
        for p_ in others:
            for nm in ('~', '~/x', '~/'):
                yield {'kind': 'tilde', 'name': nm, 'euid': p_.pw_uid}
        ghost = next(u for u in range(54321, 60000) if not any(p.pw_uid == u for p in pwd.getpwall()))
        for nm in ('~', '~/x', '~/'):
            yield {'kind': 'tilde', 'name': nm, 'euid': ghost}          # an effective uid without an account: left unchanged
    # many directories: the one added first still wins, the one added last is still consulted
    for n in (16, 17, 18, 33, 64, 65, 66, 130, 300):
        for first, last in (('d1', 'd3'), ('missing', 'd2'), ('d3', 'missing'), ('d2', 'd2')):
            yield {'kind': 'sp', 'dirs': [first] + ['missing%d' % k for k in range(n - 2)] + [last], 'names': N}
    # tilde forms one after the other in ONE process: an answer must not depend on the look-up before it
    u = USERS[0]
    uup = '/..' * pwd.getpwnam(u).pw_dir.count('/')
    seq = ['~' + u + '/x', '~' + u[:-1] if len(u) > 1 else '~q', '~' + u[:1] + '/y', '~' + u + 'x', '~' + u, '~nouser', '~' + u + '/z', '~', '~/a', '~' + u[:-1] + '/b' if len(u) > 1 else '~q/b',
           '~%s%s%s/tcwd.conf' % (u, uup, root), '~' + USERS[-1], '~' + USERS[-1][:-1]]
    for rot in range(len(seq)):
        yield {'kind': 'tildeseq', 'names': seq[rot:] + seq[:rot]}
    rng = core.seeded_rng(seed, 'c17')
    for _ in range(200 if tier == 'quick' else 5000):
        n = rng.randint(3, 6) if rng.random() < 0.9 else rng.randint(11, 14)
        yield {'kind': 'sp', 'dirs': [rng.choice(P) for _ in range(n)], 'names': rng.sample(N, 6)}


GEN_ROOT = [None]


def script(spec):
    lines, sid = schema.emit_schema(DECLS)
    L = list(lines)
    if spec['kind'] == 'tilde' and spec.get('euid') is not None:
        L += ['seteuid %d' % spec['euid'], 'tilde %s' % hx(spec['name']), 'seteuid 0']
        return '\n'.join(L)
    if spec['kind'] == 'tildeseq':
        L += ['tilde %s' % hx(nm) for nm in spec['names']]
        return '\n'.join(L)
    if spec['kind'] == 'tilde':
        L.append('tilde %s' % hx(spec['name']))
        # without a search path, cfg_parse and include resolve by tilde expansion only
        L += ['init 0 %d 0' % sid, 'parse_file 0 %s' % hx(spec['name']), 'get 0 int %s 0' % hx('i'), 'free 0']
        if '"' not in spec['name']:
            L += ['init 0 %d 0' % sid, 'parse_buf 0 %s' % hx('include("%s")\n' % spec['name']), 'get 0 int %s 0' % hx('i'), 'free 0']
        return '\n'.join(L)
    L.append('init 0 %d 0' % sid)
    for d in spec['dirs']:
        L.append('add_searchpath 0 %s' % hx(d))
    for nm in spec['names']:
        L.append('note n')
        L.append('searchpath 0 %s' % hx(nm))
        if spec['dirs']:
            L += ['init 1 %d 0' % sid]
            L += ['add_searchpath 1 %s' % hx(d) for d in spec['dirs']]
            L += ['parse_file 1 %s' % hx(nm), 'get 1 int %s 0' % hx('i'), 'free 1']
            L += ['init 1 %d 0' % sid]
            L += ['add_searchpath 1 %s' % hx(d) for d in spec['dirs']]
            L += ['parse_buf 1 %s' % hx('include("%s")\n' % nm), 'get 1 int %s 0' % hx('i'), 'free 1']
            # the same include from inside sections: one made by cfg_init (before the search path existed), one nested below it, one multi
            for wrap, path in (('one { include("%s") }\n', 'one|i'), ('one { deep { include("%s") } }\n', 'one|deep|i'), ('multi { include("%s") }\n', 'multi|i')):
                L += ['init 1 %d 0' % sid]
                L += ['add_searchpath 1 %s' % hx(d) for d in spec['dirs']]
                L += ['parse_buf 1 %s' % hx(wrap % nm), 'get 1 int %s 0' % hx(path), 'free 1']
            # the sections are opened by an earlier parse while the search path is still shorter
            L += ['init 1 %d 0' % sid, 'add_searchpath 1 %s' % hx(spec['dirs'][0]), 'parse_fp 1 %s' % hx('one { i = -2 deep { i = -2 } }\n')]      # (parse_fp: this preparatory parse is not one of the judged lookups)
            L += ['add_searchpath 1 %s' % hx(d) for d in spec['dirs'][1:]]
            L += ['parse_buf 1 %s' % hx('one { deep { include("%s") } }\n' % nm), 'get 1 int %s 0' % hx('one|deep|i'), 'free 1']
            # ... and the same with the earlier parse coming from a source of the SAME name (a buffer again)
            L += ['init 1 %d 0' % sid, 'add_searchpath 1 %s' % hx(spec['dirs'][0]), 'parse_buf_errno 1 %s 0' % hx('one { i = -2 deep { i = -2 } }\nmulti { i = -3 }\n')]
            L += ['add_searchpath 1 %s' % hx(d) for d in spec['dirs'][1:]]
            L += ['parse_buf 1 %s' % hx('one { deep { include("%s") } }\n' % nm), 'get 1 int %s 0' % hx('one|deep|i'), 'free 1']
    return '\n'.join(L)


def judge(spec, events, death):
    v = Verdict()
    root = core._W['opts']['cwd']
    if death is not None:
        what = 'tilde:' + ('user' if spec.get('name', '')[1:2] not in ('', '/') else 'self') if spec['kind'] == 'tilde' else 'searchpath'
        v.bad('memory:%s@%s:%s' % (death['kind'], death['where'], what), '%r: %s' % (spec.get('name', spec.get('dirs')), death['text'][-700:]))
        return v
    if spec['kind'] == 'tilde' and spec.get('euid') is not None:
        p = [e for e in events if e.get('ev') == 'path']
        rs = [e for e in events if e.get('ev') == 'r' and e.get('op') == 'seteuid']
        if not rs or rs[0]['rc'] != 0:
            v.skipped = True        # cannot change the effective uid here (not root)
            return v
        try:
            want = pwd.getpwuid(spec['euid']).pw_dir + spec['name'][1:]
        except KeyError:
            want = spec['name']
        v.nontrivial = True
        v.notes['tilde_forms'] = 1
        if not p or unhx(p[0]['v']) != want:
            v.bad('tilde:wrong:effective-uid', 'with effective uid %d cfg_tilde_expand(%r) = %r, expected the home of that account: %r' % (spec['euid'], spec['name'], unhx(p[0]['v']) if p else None, want))
        return v
    if spec['kind'] == 'tildeseq':
        p = [e for e in events if e.get('ev') == 'path']
        v.nontrivial = True
        v.notes['tilde_forms'] = len(p)
        if len(p) != len(spec['names']):
            v.bad('harness:short-log', 'tilde results missing')
            return v
        for k, (nm, e) in enumerate(zip(spec['names'], p)):
            if unhx(e['v']) != tilde(nm):
                v.bad('tilde:wrong:after-another-lookup', 'cfg_tilde_expand(%r) = %r after expanding %r; expected %r' % (nm, unhx(e['v']), spec['names'][:k][-2:], tilde(nm)))
                break
        return v
    if spec['kind'] == 'tilde':
        p = [e for e in events if e.get('ev') == 'path']
        want = tilde(spec['name'])
        v.nontrivial = spec['name'].startswith('~')
        v.notes['tilde_forms'] = 1
        if not p or unhx(p[0]['v']) != want:
            v.bad('tilde:wrong:%s' % form_of(spec['name']), 'cfg_tilde_expand(%r) = %r, expected %r' % (spec['name'], unhx(p[0]['v']) if p else None, want))
        elif not p[0]['fresh']:
            v.bad('tilde:not-fresh', 'cfg_tilde_expand did not return a fresh string')
        real = os.path.join(root, want)
        mk = marker_of(real) if os.path.isfile(real) else None
        gets = [e for e in events if e.get('ev') == 'get']
        rs = [e for e in events if e.get('ev') == 'r' and e.get('op') in ('parse_file', 'parse_buf')]
        for r, g in zip(rs, gets):
            if mk is not None and (r['rc'] != 0 or g['v'] != mk):
                v.bad('tilde:%s:wrong-file' % r['op'], '%s(%r): rc=%s i=%s, expected the file with marker %s' % (r['op'], spec['name'], r['rc'], g['v'], mk))
            if mk is None and r['rc'] == 0 and spec['name'] != '' and not os.path.exists(real):
                v.bad('tilde:%s:found-missing' % r['op'], '%s(%r) succeeded although %r does not exist' % (r['op'], spec['name'], want))
        return v
    groups = []
    for e in events:
        if e.get('ev') == 'note':
            groups.append([])
        elif groups:
            groups[-1].append(e)
    adds = [e for e in events if e.get('ev') == 'r' and e.get('op') == 'add_searchpath']
    if any(e['rc'] != 0 for e in adds):
        v.bad('add_searchpath:failed', 'cfg_add_searchpath failed')
        return v
    v.nontrivial = len(spec['dirs']) >= 2 or any(d.startswith('~') for d in spec['dirs'])
    for nm, g in zip(spec['names'], groups):
        want, real = resolve(root, spec['dirs'], nm) if spec['dirs'] else (None, None)
        p = [e for e in g if e.get('ev') == 'path']
        got = unhx(p[0]['v']) if p else None
        v.notes['resolutions'] = v.notes.get('resolutions', 0) + 1
        if got != want:
            cls = 'absolute' if nm.startswith('/') else 'relative'
            how = 'found-nothing' if got is None else 'found-wrong' if want is not None else 'found-nonregular-or-missing'
            v.bad('searchpath:%s:%s' % (how, cls), 'dirs %r name %r: cfg_searchpath = %r, model says %r' % (spec['dirs'], nm, got, want))
            continue
        if got is not None and not p[0]['fresh']:
            v.bad('searchpath:not-fresh', 'cfg_searchpath returned its argument')
        if not spec['dirs']:
            continue
        mk = marker_of(real) if real else None
        rs = [e for e in g if e.get('ev') == 'r' and e.get('op') in ('parse_file', 'parse_buf')]
        gets = [e for e in g if e.get('ev') == 'get']
        for r, gt in zip(rs, gets):
            if '"' in nm:
                continue
            if mk is not None and (r['rc'] != 0 or gt['v'] != mk):
                v.bad('%s:wrong-file' % r['op'], 'dirs %r name %r: %s loaded marker %s (rc=%s), the model names marker %s (%s)' % (spec['dirs'], nm, r['op'], gt['v'], r['rc'], mk, want))
            if want is None and r['rc'] == 0:
                v.bad('%s:found-unresolvable' % r['op'], 'dirs %r name %r: %s succeeded (i=%s) although resolution gives not-found' % (spec['dirs'], nm, r['op'], gt['v']))
    return v


def form_of(name):
    if not name.startswith('~'):
        return 'plain'
    rest = name[1:]
    if rest == '' or rest.startswith('/'):
        return 'self'
    return 'user' + ('/path' if '/' in rest else '')


def make_opts(variant=None):
    root = core.mktemp_dir('verif_c17_')
    build_fixture(root)
    GEN_ROOT[0] = root
    o = {'cwd': root}
    if variant:
        o['variant'] = variant
    return o


def replay_opts(bindirs):
    return make_opts()


def run(tier, seed, bindirs):
    t0 = time.time()
    opts = make_opts('asan')
    specs = list(gen(tier, seed))
    res = core.explore('checks.c17', specs, bindirs, chunk=40, opts=opts)
    # MemorySanitizer: same cases (uninitialised reads, e.g. in the ~user branch)
    o2 = dict(opts, variant='msan')
    res2 = core.explore('checks.c17', specs if tier == 'thorough' else specs[::3] + [s for s in specs if s['kind'] == 'tilde'], bindirs, chunk=40, opts=o2)
    res2.nontrivial = set()
    res.extra['msan_cases'] = res2.evaluations
    res2.evaluations = res2.judged = 0
    res.merge(res2)
    # valgrind memcheck on a sample (plain build)
    o3 = dict(opts, variant='plain', wrapper=['valgrind', '-q', '--error-exitcode=99'], timeout=900, solo_timeout=300)
    sample = [s for s in specs if s['kind'] == 'tilde'] + specs[1:len(specs):max(1, len(specs) // (30 if tier == 'quick' else 300))]
    res3 = core.explore('checks.c17', sample, bindirs, chunk=10, opts=o3)
    res.extra['valgrind_cases'] = res3.evaluations
    res3.nontrivial = set()
    res3.evaluations = res3.judged = 0
    res.merge(res3)
    cases = res.evaluations
    if not res.extra.get('harness_errors'):
        res.evaluations = res.judged = res.extra.get('resolutions', 0) + res.extra.get('tilde_forms', 0)
    res.extra['cases'] = cases
    return core.finish(PROP, tier, seed, 'exploration', res, RULE, t0, floor=100,
                       assumptions=['the passwd database read by Python (pwd) is the one the library reads', 'symlinks are followed when deciding "regular file" (stat semantics)',
                                    'tilde-prefixed directories are built as ~/../..<fixture> so that nothing is written to a home directory'],
                       more={'home': HOME, 'users': USERS})
