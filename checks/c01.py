"""C01 - parsed configuration equals the reference meaning of the text (DESIGN.md 7/C01)."""
import itertools, time, zlib
from vlib import core, schema, model_lang
from vlib import gen as G
from vlib.core import hx, unhx, Verdict, F_LIST, F_MULTI, F_TITLE, F_NOCASE, F_NODEFAULT
from vlib.schema import D

PROP = 'C01'
VARIANTS = ['asan']

INNER = [D('i', 'int', default=1), D('l', 'int', F_LIST, default=[1, 2])]
FIXED = [D('i', 'int', default=1), D('l', 'int', F_LIST, default=[1, 2]), D('s', 'sec', 0, sub=INNER), D('t', 'sec', F_MULTI | F_TITLE, sub=INNER), D('f', 'func', cbs='F')]
ALPHA = ['i', 'l', 's', 't', 'f', 'u', '7', '=', '+=', '{', '}', '(', ')', ',']
RULE = ('(1) exhaustive: every token sequence up to length N over the 14-symbol alphabet {int name, list name, single-section name, titled multi-section name, function name, unknown name, '
        'value, = += { } ( ) ,} against a fixed schema; (2) random schemas (kinds x list/no-default/multi/title/unique-titles/key=value/deprecated/drop flags x nesting <= 3) x context flags '
        '(case-insensitive names) x grammar-derived token lists with random spellings and layout, each also in mutated forms (token deletion/duplication/swap), and sequences of 2-4 texts into one '
        'context. Oracle: model_lang (token-level reference interpreter): accept/reject must agree and after an accepted parse the full tree walk must equal the model. '
        'non-trivial: accepted with >= 1 option changed from its default, or rejected; distinct = hash(schema, flags, texts)')


def tok_of(sym):
    if sym in ('=', '+=', '{', '}', '(', ')', ','):
        return [sym, sym, None]
    if len(sym) > 1 and sym[0] == sym[-1] == '"':
        return ['name', sym, sym[1:-1]]       # ("quoted" in a hand-built text: spelled with the quotes, means the text between them)
    return ['name', sym, sym]


def gen(tier, seed):
    maxlen = 4 if tier == 'quick' else 5
    fixed = [d.to_json() for d in FIXED]
    for n in range(0, maxlen + 1):
        for seq in itertools.product(ALPHA, repeat=n):
            yield {'decls': None, 'flags': 0, 'texts': [[tok_of(s) for s in seq]], 'style': 'plain'}
    yield from handbuilt()
    yield from handbuilt2()
    yield from handbuilt3()
    yield from handbuilt3(70)
    yield from handbuilt4()
    yield from handbuilt5()
    rng = core.seeded_rng(seed, 'c01')
    nrand = 60000 if tier == 'quick' else 600000
    for _ in range(nrand):
        big = rng.random() < 0.03
        so = G.SchemaOpts(funcs=True, deprecated=rng.random() < 0.3, keystrval=True, nodefault=True, depth=4 if big else 3, maxopts=20 if big else 5,
                          simple=True, null_sub=True, oddnames=True)
        decls = G.gen_schema(rng, so)
        nocase = rng.random() < 0.25
        to = {'nocase': nocase, 'titles': ['a', 'A', 'b', 'web', 'Web', 'two words', '', 'x=y'] if nocase else None, 'oddkeys': not nocase, 'pathnames': not nocase}
        ntext = 1 if rng.random() < 0.7 else rng.randint(2, 4)
        texts = []
        for _ in range(ntext):
            toks = G.gen_text(rng, decls, fancy=True, to=to)
            r = rng.random()
            if r < 0.45 and toks:
                toks = mutate(rng, toks)
            texts.append(toks)
        yield {'decls': [d.to_json() for d in decls], 'flags': F_NOCASE if nocase else 0, 'texts': texts, 'style': rng.choice(['plain', 'mixed', 'mixed', 'nonl']),
               'entry': rng.choice(['buf', 'buf', 'fp', 'file'])}


def T(text):
    """tokens of a blank-separated text (hand-built cases; every token is spelled as it reads)"""
    return [tok_of(w) for w in text.split()]


def handbuilt():
    """schemas a random generator is unlikely to produce"""
    sub = [D('x', 'int', default=1), D('xl', 'int', F_LIST, default=[3])]
    # a section option that happens to be called 'root' (the name the library gives the top-level context)
    for fl in (F_MULTI | F_TITLE, F_MULTI, 0):
        decls = [D('i', 'int', default=1), D('root', 'sec', fl, sub=sub)]
        ttl = 'a ' if fl & F_TITLE else ''
        ttl2 = 'b ' if fl & F_TITLE else ''
        for text in ('root %s{ } root %s{ x = 2 } i = 5' % (ttl, ttl), 'root %s{ x = 2 } i = 5 root %s{ xl += { 4 } }' % (ttl, ttl2), 'i = 5 root %s{ }' % ttl):
            yield {'decls': [d.to_json() for d in decls], 'flags': 0, 'texts': [T(text), T('i = 6')], 'style': 'plain'}
    # every flag once, two texts
    decls = [D('a', 'int', F_NODEFAULT), D('b', 'str', F_LIST | F_NODEFAULT), D('c', 'sec', F_NODEFAULT, sub=sub), D('d', 'sec', F_MULTI | F_TITLE | core.F_NO_TITLE_DUPES, sub=sub),
             D('e', 'sec', core.F_KEYSTRVAL, sub=[]), D('g', 'int', core.F_DEPRECATED, 7), D('h', 'int', core.F_DEPRECATED | core.F_DROP, 8),
             D('hl', 'int', F_LIST | core.F_DEPRECATED | core.F_DROP, [1, 2]), D('gl', 'int', F_LIST | core.F_DEPRECATED, [1, 2])]
    for t1, t2 in (('a = 1 b = { p , q } c { x = 2 } c { xl += { 5 } } d t { } e { k = v k2 = w k = z }', 'd t { }'),
                   ('g = 1 h = 2 hl = { 9 } gl += { 3 }', 'b += r c { }'), ('d t { x = 2 } d u { } d T { }', 'd u { x = 3 }'), ('hl += 4 a = 0x10', 'gl = { }')):
        for flags in (0, F_NOCASE):
            yield {'decls': [d.to_json() for d in decls], 'flags': flags, 'texts': [T(t1), T(t2)], 'style': 'plain'}


def handbuilt2():
    """declarations no CFG_* macro produces: scalars whose default is given as text (def.parsed), empty text meaning 'no value'"""
    def kinds(pfx):
        return [D(pfx + 'i', 'int', default=7, dparsed=''), D(pfx + 's', 'str', default='x', dparsed=''), D(pfx + 'f', 'float', default=1.5, dparsed='2.5'),
                D(pfx + 'b', 'bool', default=0, dparsed='yes'), D(pfx + 'n', 'int', default=7, dparsed='0x10'), D(pfx + 'q', 'str', default='a', dparsed='"quoted text"'),
                D(pfx + 'w', 'str', default=None, dparsed='word'), D(pfx + 'e', 'float', default=3.0, dparsed='')]
    decls = kinds('p') + [D('sec', 'sec', F_MULTI | F_TITLE, sub=kinds('x') + [D('in', 'sec', 0, sub=kinds('y'))]), D('one', 'sec', 0, sub=kinds('z'))]
    for t1, t2 in (('pi = 3', 'sec a { } sec b { xi = 1 in { ye = 2 } }'), ('sec a { xs = v } one { zi = 4 zq = w }', 'sec a { } ps = again'), ('pq = r pf = 1', 'one { }')):
        for flags in (0, F_NOCASE):
            yield {'decls': [d.to_json() for d in decls], 'flags': flags, 'texts': [T(t1), T(t2)], 'style': 'plain'}


def handbuilt4():
    """the same option name at two levels, the inner one also addressed by path from outside"""
    decls = [D('a', 'int', default=1), D('s', 'sec', 0, sub=[D('a', 'int', default=5), D('b', 'str', default='x'), D('l', 'int', F_LIST, default=[1])]), D('b', 'str', default='y'),
             D('l', 'int', F_LIST, default=[2]), D('m', 'sec', F_MULTI, sub=[D('a', 'int', default=6)])]
    for t1, t2 in (('s|a = 1 a = 2', 'a = 3 s|a = 4 a = 5 s|b = p b = q'), ('s { a = 7 } a = 8 s|a = 9 a = 10', 's|l += { 3 } l += { 4 } s|l = { } l = { 5 }'),
                   ('m { } m|a = 2 a = 3 m { a = 4 } "m=1|a" = 5 a = 6', 'b = r s|b = t b = u')):
        yield {'decls': [d.to_json() for d in decls], 'flags': 0, 'texts': [T(t1), T(t2)], 'style': 'plain'}


def handbuilt5():
    """sizes: lists, section sequences and free-form keys that cross every array-growth step"""
    decls = [D('il', 'int', F_LIST, default=[1, 2]), D('sl', 'str', F_LIST, default=None), D('m', 'sec', F_MULTI, sub=[D('x', 'int', default=0)]),
             D('t', 'sec', F_MULTI | F_TITLE, sub=[D('x', 'int', default=0), D('xl', 'int', F_LIST, default=[7])]), D('kv', 'sec', core.F_KEYSTRVAL, sub=[]), D('i', 'int', default=1)]
    for n in (16, 17, 33, 65, 257, 1025, 4097):
        il = 'il = { ' + ' , '.join(str(k) for k in range(n)) + ' }'
        sl = ' '.join('sl += w%d' % k for k in range(min(n, 300)))
        ms = ' '.join('m { x = %d }' % k for k in range(min(n, 600)))
        ts = ' '.join('t n%d { x = %d }' % (k, k) for k in range(min(n, 600)))
        ts2 = ' '.join('t n%d { xl += { %d } }' % (k, k) for k in range(0, min(n, 600), 3))
        kv = 'kv { ' + ' '.join('k%d = v%d' % (k, k) for k in range(min(n, 600))) + ' }'
        kv2 = 'kv { ' + ' '.join('k%d = w%d' % (k, k) for k in range(0, min(n, 600), 2)) + ' }'
        for t1, t2 in ((il + ' ' + ms, 'il += { 5 } ' + sl), (ts + ' ' + kv, ts2 + ' ' + kv2 + ' i = 2')):
            yield {'decls': [d.to_json() for d in decls], 'flags': 0, 'texts': [T(t1), T(t2)], 'style': 'plain', 'entry': ['buf', 'fp', 'file'][n % 3]}


def handbuilt3(deep=12):
    """sections declared 12 (and 70) levels deep (plain, multi and titled alternating), every level with its own defaults"""
    def level(k):
        leafs = [D('v%d' % k, 'int', default=k), D('l%d' % k, 'int', F_LIST, default=[k, k + 1]), D('t%d' % k, 'str', default='d%d' % k)]
        if k == deep:
            return leafs
        fl = [0, F_MULTI, F_MULTI | F_TITLE][k % 3]
        return leafs + [D('s%d' % k, 'sec', fl, sub=level(k + 1))]
    decls = level(1)
    def nest(k, inner):
        if k == deep:
            return inner
        ttl = 'n%d ' % k if k % 3 == 2 else ''
        return 's%d %s{ v%d = %d %s }' % (k, ttl, k + 1, 100 + k, nest(k + 1, inner))
    for t1, t2 in ((nest(1, 'l%d += { 5 }' % deep), nest(1, 't%d = again' % deep)), (nest(1, ''), 'v1 = 9'), ('v1 = 2', nest(1, 'v%d = 1' % deep))):
        yield {'decls': [d.to_json() for d in decls], 'flags': 0, 'texts': [T(t1), T(t2)], 'style': 'plain'}


def mutate(rng, toks):
    t = [list(x) for x in toks]
    for _ in range(rng.choice([1, 1, 2])):
        if not t:
            break
        i = rng.randrange(len(t))
        r = rng.random()
        if r < 0.4:
            del t[i]
        elif r < 0.7:
            t.insert(i, list(t[i]))
        else:
            j = rng.randrange(len(t))
            t[i], t[j] = t[j], t[i]
    return t


def render(spec, k):
    toks = spec['texts'][k]
    if spec['style'] == 'plain':
        return ' '.join(t[1] for t in toks) + '\n'
    if spec['style'] == 'nonl':
        return ' '.join(t[1] for t in toks)          # nothing before the first token, nothing after the last
    rng = core.seeded_rng(zlib.crc32(repr(toks).encode()), 'layout')
    return G.render(toks, rng, 'mixed')


def decls_of(spec):
    return FIXED if spec['decls'] is None else [D.from_json(j) for j in spec['decls']]


def script(spec):
    decls = decls_of(spec)
    lines, sid = schema.emit_schema(decls)
    lines.append('init 0 %d %d' % (sid, spec['flags']))
    lines.append('dump 0')
    for k in range(len(spec['texts'])):
        entry = spec.get('entry', 'buf')
        text = render(spec, k)
        if entry == 'fp' and '\0' not in text:
            lines.append('parse_fp 0 %s' % hx(text))
        elif entry == 'file':
            lines.append('mkfile %s %s' % (hx('in%d.conf' % k), hx(text)))
            lines.append('parse_file 0 %s' % hx('in%d.conf' % k))
        else:
            lines.append('parse_buf 0 %s' % hx(text))
        lines.append('dump 0')
    return '\n'.join(lines)


def judge(spec, events, death):
    v = Verdict()
    decls = decls_of(spec)
    if death is not None:
        v.bad('crash:%s@%s' % (death['kind'], death['where']), 'texts %r: %s' % ([render(spec, k)[:200] for k in range(len(spec['texts']))], death['text'][-500:]))
        return v
    rs = [e for e in events if e.get('ev') == 'r' and e.get('op') in ('parse_buf', 'parse_fp', 'parse_file')]
    ds = [e for e in events if e.get('ev') == 'dump']
    if len(rs) != len(spec['texts']) or len(ds) != len(spec['texts']) + 1:
        v.bad('harness:short-log', 'events missing')
        return v
    model = schema.new_root(decls)
    d0 = schema.diff_sec(model, ds[0]['tree'], check_mod=False)
    if d0:
        v.bad('initial-state:' + klass(d0[0]), 'state after cfg_init differs from the declared defaults: %s' % d0[:3])
        return v
    changed = False
    for k, toks in enumerate(spec['texts']):
        verdict, pos, it = model_lang.interpret(model, toks, spec['flags'])
        v.notes.setdefault('state_token_pairs', set()).update('%s/%s' % e for e in it.events)
        if verdict == 'unspec':
            v.notes['unspecified_texts'] = v.notes.get('unspecified_texts', 0) + 1
            v.notes.setdefault('unspecified_reasons', set()).add(pos.split(':')[0])
            if k == 0:
                v.skipped = True
            break
        got = rs[k]['rc']
        if verdict == 'accept':
            if got != 0:
                msgs = [unhx(e['msg']) for e in events if e.get('ev') == 'diag'][-2:]
                v.bad('rejected-valid:%s' % shape(toks, None), 'text %d %r is valid but was rejected (%r)' % (k, render(spec, k)[:300], msgs))
                break
            diffs = schema.diff_sec(model, ds[k + 1]['tree'], check_mod=False)
            if diffs:
                v.bad('wrong-values:%s' % klass(diffs[0]), 'after text %d %r: %s' % (k, render(spec, k)[:300], diffs[:3]))
                break
            changed = True
            v.notes['accepted'] = v.notes.get('accepted', 0) + 1
        else:
            if got == 0:
                v.bad('accepted-invalid:%s:%s' % (it.why, shape(toks, pos)), 'text %d %r must be rejected (%s at token %d) but was accepted' % (k, render(spec, k)[:300], it.why, pos))
            else:
                v.notes['rejected'] = v.notes.get('rejected', 0) + 1
                v.notes.setdefault('reject_reasons', set()).add(it.why)
                changed = True
            break
    v.nontrivial = changed
    return v


def klass(diff):
    """coarse class of a tree difference"""
    if 'values' in diff and 'expected' in diff:
        if 'expected 0 ' in diff or 'expected []' in diff:
            return 'should-be-empty'
        return 'count' if ' values [' in diff and 'expected' in diff and diff.split(':')[1].strip()[0].isdigit() else 'value'
    if 'title' in diff:
        return 'title'
    if 'options' in diff:
        return 'option-set'
    return 'other'


def shape(toks, pos):
    """token-kind context around the interesting position"""
    if pos is None:
        kinds = [t[0] for t in toks[:6]]
    else:
        kinds = [t[0] for t in toks[max(0, pos - 2):pos + 1]]
    return '>'.join('S' if k in model_lang.STR else k for k in kinds)[:40]


def run(tier, seed, bindirs):
    t0 = time.time()
    res = core.explore('checks.c01', gen(tier, seed), bindirs, chunk=300)
    return core.finish(PROP, tier, seed, 'exploration', res, RULE, t0, floor=10000,
                       assumptions=['unspecified, executed but not judged: trailing comma in a list or argument list, option names containing | or =, TITLE without MULTI, key=value sections with sub-sections, '
                                    'conversions model_num leaves open; judging of a text sequence stops at its first rejected or unspecified text',
                                    'ignore-unknown (C12), includes (C13), comments/annotations (C15) and callbacks (C14) are kept out of this workload'],
                       more={'exhaustive_part': 'all token sequences of length <= %d over %d symbols' % (4 if tier == 'quick' else 5, len(ALPHA))})
