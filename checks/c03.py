"""C03 - string, escape, environment and comment lexing decode as specified (DESIGN.md 7/C03)."""
import itertools, time, zlib
from vlib import core, model_lex
from vlib.core import hx, unhx, opt_line, Verdict

PROP = 'C03'
VARIANTS = ['asan']
CLASSES = ['a', 'n', 'x', 'e', '0', '7', '8', 'f', ' ', '\t', '\n', '\\', '"', "'", '$', '{', '}', ':', '-', '#', '/', '*', '\x80', '\xff']
ENVVALS = {'set': 'VAL', 'empty': '', 'meta': 'm"\\${q}#\n\'/*x*/ ', 'mid': 'm' * 45, 'long': ('0123456789' * 30)[:293] + 'END'}
FRAMES = 11
PER_CASE = 40
RULE = ('literal bodies enumerated exhaustively up to length N over %d byte-class representatives, in double-quoted, single-quoted and '
        'unquoted form, then random longer bodies; framed as  s = <literal> [comment]  or  l = {<literal>[, <literal>]}, with LF or CRLF line ends or a comment glued to the literal; bodies with a '
        '${...} run under 4 environments (unset, set, empty, meta characters), long values (45 / 296 bytes) and long defaults (20 bytes .. 20 KB) at every scratch-buffer offset; oracle = model_lex (decoder written from the statement); plus agreement cases: the same ${...} bare and inside double quotes in one text must give equal values under 6 environments (covers the corners the model leaves open). '
        'non-trivial: body contains an escape, substitution, quote or newline; distinct = (form, body, env, framing)' % len(CLASSES))


def frame(fr, lit):
    if fr == 0:
        return 's = %s\n' % lit
    if fr == 1:
        return 's = %s # trailing comment "x" \'y\' ${z}\n' % lit
    if fr == 2:
        return 's = %s /* c "x"\n \'y\' */\n' % lit
    if fr == 3:
        return 's = %s // c ${HOME}\n' % lit
    if fr == 4:
        return 'l = {%s}\n' % lit
    if fr == 6:
        return 's = %s\r\n' % lit                       # CRLF line ends: the CR directly follows the literal
    if fr == 7:
        return 'l = {%s\r\n, %s\r\n}\r\n' % (lit, lit)
    if fr == 8:
        return 's = %s#glued ${z} "\n' % lit                # a comment directly behind the literal
    if fr == 9:
        return 'l = {%s#c\n, %s/*c*/}\n' % (lit, lit)
    if fr == 10:
        return 's = %s' % lit                             # the literal is the very last thing in the input
    return 'l = { %s , %s }\n' % (lit, lit)


SEQ_LITS = [['sq', 'abc'], ['dq', 'abc'], ['uq', 'abc'], ['uq', '${a}'], ['uq', '${n:-dflt}'], ['uq', '${}'], ['dq', 'x${a}y'], ['dq', ''], ['sq', ''],
            ['dq', '\\x41\\101'], ['sq', "q\\'q"], ['uq', 'w/x'], ['dq', 'two\nlines'], ['sq', 'it\\\\s']]
SEQ_GAPS = ['\n', ' ', '\n# c\n', ' /* c */ ', '\n// c ${a}\n', ' /* a * b */\n']


def seq_specs(tier, seed):
    """several literals in ONE parse: a literal must not depend on the token lexed before it"""
    import itertools as it
    rng = core.seeded_rng(seed, 'c03seq')
    n = len(SEQ_LITS)
    for a, b, c in it.product(range(n), repeat=3):
        yield {'seq': [a, b, c], 'env': 'set' if (a + b + c) % 2 else 'unset', 'gaps': [rng.randrange(len(SEQ_GAPS)) for _ in range(3)]}
    for _ in range(2000 if tier == 'quick' else 50000):
        k = rng.randint(4, 6)
        yield {'seq': [rng.randrange(n) for _ in range(k)], 'env': rng.choice(['set', 'unset', 'meta']), 'gaps': [rng.randrange(len(SEQ_GAPS)) for _ in range(k)]}


AGREE = ['${a:-dflt}', '${a}', '${a:-}', '${a:-d:e}', '${a:--}', '${a:-two words}', '${a:-' + 'L' * 300 + '}']


def agree_specs():
    """the same ${...} written bare and inside double quotes in ONE text: the statement gives both contexts the same replacement rule,
    so the two values must be equal whatever the rule is in the corners the model leaves open (variable set but empty, with a default)"""
    for b in range(len(AGREE)):
        for env in ('unset', 'set', 'empty', 'meta', 'mid', 'long'):
            for order in (0, 1):
                yield {'agree': b, 'env': env, 'order': order}


def agree_script(spec):
    body = AGREE[spec['agree']]
    L = ['schema 0', opt_line('u', 'str', dstr='DEFAULT-U'), opt_line('q', 'str', dstr='DEFAULT-Q'), 'endschema']
    L.append('unsetenv %s' % hx('a') if spec['env'] == 'unset' else 'setenv %s %s' % (hx('a'), hx(ENVVALS[spec['env']])))
    lines = ['u = %s' % body, 'q = "%s"' % body]
    if spec['order']:
        lines.reverse()
    L += ['init 0 0 0', 'parse_buf 0 %s' % hx('\n'.join(lines) + '\n'), 'get 0 str %s 0' % hx('u'), 'get 0 str %s 0' % hx('q'), 'free 0', 'unsetenv %s' % hx('a')]
    return '\n'.join(L)


def agree_judge(spec, events, death):
    v = Verdict()
    body = AGREE[spec['agree']]
    if death is not None:
        v.bad('crash:%s@%s:agree' % (death['kind'], death['where']), '%r under env %s: %s' % (body, spec['env'], death['text'][-500:]))
        return v
    r = [e for e in events if e.get('ev') == 'r' and e.get('op') == 'parse_buf']
    g = [e for e in events if e.get('ev') == 'get']
    v.nontrivial = True
    v.notes['agreement_cases'] = 1
    if not r or len(g) < 2:
        v.bad('harness:short-log', 'events missing')
    elif r[0]['rc'] != 0:
        if ' ' in body and spec['env'] in ('unset', 'empty'):
            v.skipped = True      # a bare ${...:-two words}: whether the blank ends the bare token is not fixed
        else:
            v.bad('agree:rejected', 'text with %r bare and quoted is rejected (env %s)' % (body, spec['env']))
    elif g[0]['v'] != g[1]['v']:
        if ' ' in body:
            v.skipped = True
        else:
            v.bad('agree:bare-vs-quoted:%s' % spec['env'], '%r gives %r written bare and %r inside double quotes (variable %s)' % (body, unhx(g[0]['v']), unhx(g[1]['v']), spec['env']))
    return v


def seq_script(spec):
    names = ['s%d' % k for k in range(len(spec['seq']))]
    L = ['schema 0'] + [opt_line(nm, 'str', dstr='DEFAULT') for nm in names] + ['endschema']
    for nm in ('a', 'n'):
        L.append('unsetenv %s' % hx(nm) if spec['env'] == 'unset' else 'setenv %s %s' % (hx(nm), hx(ENVVALS[spec['env']])))
    text = ''
    for k, li in enumerate(spec['seq']):
        form, body = SEQ_LITS[li]
        text += '%s = %s%s' % (names[k], model_lex.render(form, body), SEQ_GAPS[spec['gaps'][k]])
    L += ['init 0 0 0', 'parse_buf 0 %s' % hx(text + '\n')]
    L += ['get 0 str %s 0' % hx(nm) for nm in names]
    L += ['free 0', 'unsetenv %s' % hx('a'), 'unsetenv %s' % hx('n')]
    return '\n'.join(L)


def seq_judge(spec, events, death):
    v = Verdict()
    if death is not None:
        v.bad('crash:%s@%s:sequence' % (death['kind'], death['where']), 'sequence %r: %s' % (spec, death['text'][-500:]))
        return v
    r = [e for e in events if e.get('ev') == 'r' and e.get('op') == 'parse_buf']
    g = [e for e in events if e.get('ev') == 'get']
    env = {} if spec['env'] == 'unset' else {'a': ENVVALS[spec['env']], 'n': ENVVALS[spec['env']]}
    v.nontrivial = True
    v.notes['sequence_cases'] = 1
    if not r or r[0]['rc'] != 0:
        v.bad('sequence:rejected', 'a sequence of valid literals %r is rejected' % [SEQ_LITS[i] for i in spec['seq']])
        return v
    for k, li in enumerate(spec['seq']):
        form, body = SEQ_LITS[li]
        exp = model_lex.decode(form, body, env)
        if exp[0] != 'ok':
            continue
        got = unhx(g[k]['v'])
        if got != exp[1]:
            prev = SEQ_LITS[spec['seq'][k - 1]] if k else None
            v.bad('sequence:wrong-value:%s-after-%s' % (form, prev[0] if prev else 'start'), 'literal %r lexed after %r gives %r, expected %r' % (SEQ_LITS[li], prev, got, exp[1]))
    return v


def script(spec):
    if 'agree' in spec:
        return agree_script(spec)
    if 'seq' in spec:
        return seq_script(spec)
    L = ['schema 0', opt_line('s', 'str', dstr='DEFAULT'), opt_line('l', 'str', flags=core.F_LIST, dparsed='{DEFAULT}'), 'endschema']
    for form, body, envmode, fr in spec['lits']:
        for nm in model_lex.names_in(body):
            if envmode == 'unset':
                L.append('unsetenv %s' % hx(nm))
            else:
                L.append('setenv %s %s' % (hx(nm), hx(ENVVALS[envmode])))
        L.append('init 0 0 0')
        L.append('parse_buf 0 %s' % hx(frame(fr, model_lex.render(form, body))))
        if fr < 4 or fr in (6, 8, 10):
            L.append('get 0 str %s 0' % hx('s'))
            L.append('get 0 size %s 0' % hx('s'))
        else:
            L.append('get 0 str %s %d' % (hx('l'), 0 if fr == 4 else 1))
            L.append('get 0 size %s 0' % hx('l'))
        L.append('free 0')
        for nm in model_lex.names_in(body):
            L.append('unsetenv %s' % hx(nm))
    return '\n'.join(L)


def judge(spec, events, death):
    if 'agree' in spec:
        return agree_judge(spec, events, death)
    if 'seq' in spec:
        return seq_judge(spec, events, death)
    v = Verdict()
    if death is not None:
        # attribute to the literal in flight
        done = len([e for e in events if e.get('ev') == 'r' and e.get('op') == 'free'])
        lit = spec['lits'][min(done, len(spec['lits']) - 1)]
        v.bad('crash:%s@%s' % (death['kind'], death['where']), 'literal %r: %s' % (lit, death['text'][-800:]))
        return v
    evs = [e for e in events if (e.get('ev') == 'r' and e.get('op') == 'parse_buf') or e.get('ev') == 'get']
    if len(evs) != 3 * len(spec['lits']):
        v.bad('harness:short-log', 'expected %d events, got %d' % (3 * len(spec['lits']), len(evs)))
        return v
    njudged = 0
    for k, (form, body, envmode, fr) in enumerate(spec['lits']):
        r, g, sz = evs[3 * k:3 * k + 3]
        env = {} if envmode == 'unset' else {nm: ENVVALS[envmode] for nm in model_lex.names_in(body)}
        exp = model_lex.decode(form, body, env)
        if exp == ('reject', 'unterminated') and fr in (1, 2, 5, 7, 8, 9):
            exp = ('skip', 'framing-has-a-later-quote')   # the open string would end at the framing's own quote
        if fr == 9 and form == 'uq':
            exp = ('skip', 'comment-opener-glued-to-a-bare-word')     # a slash continues a bare word: 'w/*c*/' is not a word followed by a comment
        if exp[0] in ('skip', 'unspec'):
            v.notes['not_judged_' + exp[0]] = v.notes.get('not_judged_' + exp[0], 0) + 1
            v.notes.setdefault('not_judged_reasons', set()).add(exp[0] + ':' + exp[1])
            continue
        njudged += 1
        v.notes['literals_judged'] = v.notes.get('literals_judged', 0) + 1
        if model_lex.nontrivial(form, body):
            v.notes.setdefault('nontrivial_literals', set()).add(zlib.crc32(repr((form, body, envmode, fr)).encode()))
        got = unhx(g['v'])
        want_n = 2 if fr in (5, 7, 9) else 1
        if exp[0] == 'ok':
            if r['rc'] != 0:
                v.bad('%s:rejected-valid:%s' % (form, klass(form, body)), '%s literal %r (env %s, frame %d) must decode to %r but the parse failed rc=%s' % (form, body, envmode, fr, exp[1], r['rc']))
            elif got != exp[1] or sz['v'] != want_n:
                v.bad('%s:wrong-value:%s' % (form, klass(form, body)), '%s literal %r (env %s, frame %d): expected %r, got %r (size %s)' % (form, body, envmode, fr, exp[1], got, sz['v']))
        else:
            if r['rc'] == 0:
                v.bad('%s:accepted-invalid:%s' % (form, exp[1]), '%s literal %r (frame %d) must be rejected (%s) but was accepted as %r' % (form, body, fr, exp[1], got))
    if njudged == 0:
        v.skipped = True
    else:
        v.nontrivial = any(model_lex.nontrivial(f, b) for f, b, _, _ in spec['lits'])
    return v


def klass(form, body):
    """coarse class of a literal for violation keys: which construct it exercises"""
    tags = []
    if '${' in body:
        tags.append('subst')
    if '\\' in body:
        i = body.find('\\')
        nxt = body[i + 1:i + 2]
        tags.append('esc-' + ('digit' if nxt in '0123456789' and nxt else 'nl' if nxt == '\n' else nxt if nxt.isalpha() else 'punct'))
    if '\n' in body.replace('\\\n', ''):
        tags.append('newline')
    if any(ord(c) >= 0x80 for c in body):
        tags.append('8bit')
    return '+'.join(tags) or 'plain'


def lit_specs(tier, seed):
    maxlen = 4 if tier == 'quick' else 5
    for n in range(0, maxlen + 1):
        for t in itertools.product(CLASSES, repeat=n):
            body = ''.join(t)
            for form in ('dq', 'sq', 'uq'):
                fr = zlib.crc32((form + body).encode('latin-1')) % FRAMES
                if '${' in body and '}' in body:
                    for em in ('unset', 'set', 'empty', 'meta'):
                        yield [form, body, em, fr]
                else:
                    yield [form, body, 'unset', fr]
    # boundary bodies the 24 class representatives cannot spell: every 1-3 digit octal escape, every 1-2 digit hex escape,
    # escapes followed by a digit, defaults containing ':' '-' '}' look-alikes
    BOUND = []
    for d in range(0, 0o1000):
        for spell in {'%o' % d, '%02o' % d, '%03o' % d}:
            if len(spell) <= 3:
                BOUND.append('\\' + spell)
                BOUND.append('a\\' + spell + 'z')
    for d in range(256):
        BOUND += ['\\x%x' % d, '\\x%02X' % d, '\\x%02xf' % d]
    BOUND += ['${a:-x:y}', '${n:-:}', '${a:-x:-y}', '${n:-a:b:c}', 'p${a:-q:r}s', '${n:--}', '${n:-}', '${a:}', '${a:x}', '${:-d}', '${a:-d${n}', '${n:-"}', "${n:-'}",
              '\\8', '\\9', '\\08', '\\1234', '\\400', '\\377', '\\376', '\\3777', '\\xg', '\\x', '\\xfff', '\\e\\v\\b\\f\\a\\r', '\\E', '\\N', '\\0', '\\00', '\\000', '\\x0', '\\x00']
    for c in 'ntrbfaevNTRBFAEVxqz.?"\'\\':
        BOUND += ['\\' + c, 'p\\' + c + 'q', '\\' + c + '\\' + c]
    BOUND += ['\\\r\n', 'a\\\r\nb', 'a\\\rb', 'x\r\ny', '\\\n\\\r\n']      # (a backslash before CR LF is not a line continuation: the bytes stay)
    for body in BOUND:
        for form in ('dq', 'sq', 'uq'):
            fr = zlib.crc32((form + body).encode('latin-1')) % FRAMES
            for em in (('unset', 'set', 'empty', 'meta') if '${' in body else ('unset',)):
                yield [form, body, em, fr]
    # long literals: the scanner's scratch buffer grows in 32-byte steps and its input buffer is refilled every 8 KiB /
    # doubled at 16 KiB; lengths are placed around those boundaries, the content mixes plain bytes, escapes and substitutions
    lrng = core.seeded_rng(seed, 'c03long')
    lens = list(range(28, 70)) + [95, 96, 97, 127, 128, 129, 255, 256, 257, 1023, 1024, 1025] + \
        [8180 + k for k in range(0, 24, 3)] + [16370 + k for k in range(0, 30, 3)] + ([32760, 32768, 32770, 65536] if tier == 'thorough' else [32768])
    pieces = ['a', 'b', 'Z', '0', ' ', 'x', '\\n', '\\t', '\\\\', '\\x41', '\\101', "\\'", '${a}', '${n:-d}', '\t', '#', '/', '*', '{', '}', '=', ',', '\xe9', '\\\n']
    for n in lens:
        for rep in range(3 if n < 300 else 1):
            body = ''
            while len(body) < n:
                body += lrng.choice(pieces) if lrng.random() < 0.3 else lrng.choice('abcdefghij klmnop')
            for form in ('dq', 'sq'):
                yield [form, body, lrng.choice(['unset', 'set', 'meta']), lrng.randrange(FRAMES)]
            yield ['uq', ''.join(c for c in body if c.isalnum() or c in './:-_')[:n] or 'w', 'unset', lrng.randrange(FRAMES)]
    # long substituted values and long defaults: a substitution is appended to the scratch buffer in one go, at every offset within a growth step
    for k in list(range(0, 70)) + [250, 251, 255, 256, 257, 300]:
        for form in ('dq', 'uq'):
            pre = 'x' * k if form == 'dq' else ''
            for em in ('mid', 'long'):
                yield [form, pre + '${a}' + ('y' if form == 'dq' else ''), em, lrng.randrange(FRAMES)]
            yield [form, pre + '${n:-' + 'd' * (k + 20) + '}', 'unset', lrng.randrange(FRAMES)]
            yield [form, pre + '${%s:-%s}' % ('N' * (k + 1), 'd' * (260 - k if k < 250 else 5)), 'unset', lrng.randrange(FRAMES)]
    for k in (30, 31, 32, 33, 62, 63, 64, 65, 127, 128, 129, 255, 256, 257, 1000):
        nm = 'V' * k           # a long variable name that IS set (and whose shorter prefixes are not)
        for form, body in (('uq', '${%s}' % nm), ('dq', 'a${%s}b' % nm), ('uq', '${%s:-dflt}' % nm), ('dq', '${%s:-dflt}' % nm)):
            yield [form, body, 'set', lrng.randrange(FRAMES)]
    for k in (1000, 4000, 8190, 16380, 20000):
        yield ['uq', '${n:-' + 'd' * k + '}', 'unset', 0]
        yield ['dq', 'p${n:-' + 'e' * k + '}q', 'unset', 0]
    rng = core.seeded_rng(seed, 'c03')
    nrand = 40000 if tier == 'quick' else 600000
    weights = CLASSES + ['\\', '\\', '$', '{', '}', '0', '7', 'x']
    for _ in range(nrand):
        n = rng.randint(maxlen + 1, 10)
        body = ''.join(rng.choice(weights) for _ in range(n))
        if rng.random() < 0.3:
            # plant a well-formed substitution
            k = rng.randint(0, len(body))
            body = body[:k] + rng.choice(['${a}', '${n:-7}', '${x:-}', '${e:-a b}', '${}', '${a:-${n}']) + body[k:]
        form = rng.choice(('dq', 'dq', 'sq', 'uq'))
        yield [form, body, rng.choice(('unset', 'set', 'empty', 'meta')), rng.randrange(FRAMES)]


def gen(tier, seed):
    yield from seq_specs(tier, seed)
    yield from agree_specs()
    for ch in core.chunks(lit_specs(tier, seed), PER_CASE):
        yield {'lits': ch}


def run(tier, seed, bindirs):
    t0 = time.time()
    res = core.explore('checks.c03', gen(tier, seed), bindirs, chunk=25)
    lj = res.extra.get('literals_judged', 0)
    nt = res.extra.get('nontrivial_literals', set())
    # evidence counts literals, not 40-literal cases
    res.evaluations = lj + res.extra.get('not_judged_skip', 0) + res.extra.get('not_judged_unspec', 0) + res.extra.get('sequence_cases', 0) + res.extra.get('agreement_cases', 0)
    res.judged = lj + res.extra.get('sequence_cases', 0) + res.extra.get('agreement_cases', 0)
    res.nontrivial = nt
    res.extra.pop('nontrivial_literals', None)
    return core.finish(PROP, tier, seed, 'exploration', res, RULE, t0, floor=10000,
                       assumptions=['not judged (unspecified): escapes producing NUL, ${NAME} with ":" not followed by "-" or an unsettable name, variable set to the empty string together with a :-default',
                                    'not judged (skip): bodies that do not form exactly one literal in the framing (inner closing quote, stop characters in a bare word, ...)',
                                    'digit runs after a backslash that are not 1-3 octal digits are expected to be rejected (the "invalid escape" of the statement)'],
                       more={'exhaustive_part': 'all bodies of length <= %d over %d byte classes x 3 forms' % (4 if tier == 'quick' else 5, len(CLASSES))})
