"""C12 - with ignore-unknown set, undeclared items are skipped cleanly (DESIGN.md 7/C12)."""
import time, zlib
from vlib import core, schema
from vlib import gen as G
from vlib.core import hx, unhx, Verdict, F_LIST, F_MULTI, F_TITLE, F_IGNORE_UNKNOWN, F_COMMENTS
from vlib.schema import D

PROP = 'C12'
VARIANTS = ['asan']

DEEP = [D('w', 'int', default=0)]
SUB = [D('y', 'int', default=0), D('yl', 'str', F_LIST, default=['k']), D('deep', 'sec', 0, sub=DEEP)]
SEC = [D('x', 'int', default=9), D('xl', 'int', F_LIST, default=[3]), D('sub', 'sec', F_MULTI, sub=SUB), D('inner', 'sec', 0, sub=SUB), D('fn', 'func', cbs='F')]
DECLS = [D('i', 'int', default=1), D('f', 'float', default=0.5), D('b', 'bool', default=0), D('s', 'str', default='d'),
         D('il', 'int', F_LIST, default=[1, 2]), D('sl', 'str', F_LIST, default=['a']),
         D('sec', 'sec', F_MULTI | F_TITLE, sub=SEC), D('one', 'sec', 0, sub=[D('z', 'int', default=1), D('zs', 'str', default='q'), D('inner', 'sec', 0, sub=SUB)]),
         D('kv', 'sec', core.F_KEYSTRVAL, sub=[D('known', 'str', default='k')]),
         D('fn', 'func', cbs='F'), D('dep', 'int', core.F_DEPRECATED, 3), D('drp', 'str', core.F_DEPRECATED | core.F_DROP, 'old')]

RULE = ('accepted texts over a fixed schema x every item boundary at every depth x generated unknown items (assignment, list incl. empty, append, function call, plain and titled '
        'sections that are empty / end in a scalar / a list / a call / contain known names, nested recursively) plus multi-insertions; with CFGF_IGNORE_UNKNOWN the return code and the '
        'values-only tree hash must equal the uninserted run and no diagnostic may appear (a third of the insertions carry a comment of their own and are parsed with annotation support on: then values and annotations together must equal the uninserted run); without the flag the same text must be rejected with a diagnostic. A nesting ladder of unknown '
        'sections 10^2..10^5 deep bounds the stack. non-trivial: the inserted item is a list, call or section; distinct = (text, insertion point, item)')

NAMES = ['u', 'unk', 'x_new', 'zz9', 'future.opt', 'x', 'y', 'z', 'w', 'zs',      # x/y/z are known only at other levels
         'unk|opt', 'u=1|v', 'zz|', 'new=t|k|l', 'sec=nosuch|x', 'one|nosuch', 'sec=nosuch', 'one|inner|nosuch']                        # names that look like paths (into nothing that is declared)
VALS = ['1', 'abc', '"q s"', "'sq'", '3.5', 'true', '"br{ace}"', '"}"', '"{"', '"a,b"', '")"', '${VERIF_C12_UNSET:-dd}', '""']


def unk_item(rng, depth=0, level_names=()):
    name = rng.choice([n for n in NAMES if n not in level_names] or ['u'])
    if '=' in name:
        name = '"%s"' % name        # (a bare '=' would end the word)
    r = rng.random()
    val = lambda: rng.choice(VALS)
    lst = lambda: '{' + ', '.join(val() for _ in range(rng.randint(0, 3))) + '}'
    if r < 0.15:
        return 'assign', '%s = %s' % (name, val())
    if r < 0.3:
        return 'list', '%s = %s' % (name, lst())
    if r < 0.38:
        return 'append', '%s += %s' % (name, val())
    if r < 0.46:
        return 'append-list', '%s += %s' % (name, lst())
    if r < 0.6:
        return 'call', '%s(%s)' % (name, ', '.join(val() for _ in range(rng.randint(0, 3))))
    title = rng.choice(['', '', ' t1', ' "a title"', " 'sq'"])
    body = []
    if depth < 3:
        for _ in range(rng.choice([0, 0, 1, 2, 3])):
            rr = rng.random()
            if rr < 0.35:
                body.append(rng.choice(['i = 99', 's = "leak"', 'il = {9, 9}', 'il += {8}', 'x = 5', 'one { z = 3 }', 'sec q { x = 1 }', 'fn(a, b)', 'include("nope")']))
            else:
                body.append(unk_item(rng, depth + 1)[1])
    sep = rng.choice([' ', '\n', '\n  '])
    kind = 'section-empty' if not body else 'section-ends-' + ('call' if body[-1].endswith(')') else 'list' if body[-1].endswith('}') and '{' in body[-1] and ' = ' in body[-1].split('{')[0] + ' ' else 'other')
    return kind, '%s%s {%s%s%s}' % (name, title, sep if body else '', sep.join(body), sep if body else '')


def gen_item(rng, decls, depth=0):
    if depth == 0 and rng.random() < 0.08:
        # a declared option addressed by path from the top level (its last component is a name the top level does not declare)
        return ['leaf', rng.choice(['one|z = 4', 'one|inner|y = 6', 'one|inner|deep|w = 2', 'one|zs = "by path"'])]
    d = rng.choice(decls)
    if d.typ == 'sec':
        head = d.name + (' ' + rng.choice(['a', 'b', '"c d"', 'T']) if d.flags & F_TITLE else '')
        body = [gen_item(rng, d.sub, depth + 1) for _ in range(rng.randint(0, 3))] if depth < 2 else []
        return ['sec', head, body, [x.name for x in d.sub], bool(d.flags & core.F_KEYSTRVAL)]
    if d.typ == 'func':
        return ['leaf', '%s(%s)' % (d.name, ', '.join(rng.choice(['a', '"b c"', '1']) for _ in range(rng.randint(0, 2))))]
    if d.is_list:
        vals = ', '.join(G.rand_value(rng, d.typ)[1] if d.typ != 'str' else '"%s"' % rng.choice(['p', 'q r', 'x']) for _ in range(rng.randint(0, 3)))
        return ['leaf', '%s %s {%s}' % (d.name, rng.choice(['=', '+=']), vals)]
    v = G.rand_value(rng, d.typ)[1] if d.typ != 'str' else '"%s"' % rng.choice(['hello', 'a b', ''])
    return ['leaf', '%s = %s' % (d.name, v)]


def boundaries(items, path=()):
    """all insertion points: (path to the item list, index)"""
    out = [(path, k) for k in range(len(items) + 1)]
    for k, it in enumerate(items):
        if it[0] == 'sec':
            out += boundaries(it[2], path + (k,))
    return out


def render(items, ins=None, path=(), ind=0):
    """ins: dict (path, index) -> text to insert"""
    out = []
    for k in range(len(items) + 1):
        if ins and (path, k) in ins:
            out.append('  ' * ind + ins[(path, k)])
        if k == len(items):
            break
        it = items[k]
        if it[0] == 'leaf':
            out.append('  ' * ind + it[1])
        else:
            out.append('  ' * ind + it[1] + ' {')
            out += render(it[2], ins, path + (k,), ind + 1)
            out.append('  ' * ind + '}')
    return out


def names_at(items, path):
    names = [d.name for d in DECLS]
    cur = items
    for k in path:
        names = cur[k][3]
        cur = cur[k][2]
    return names


def in_keyval(items, path):
    cur = items
    kv = False
    for k in path:
        kv = kv or cur[k][4]
        cur = cur[k][2]
    return kv


def gen(tier, seed):
    rng = core.seeded_rng(seed, 'c12')
    n = 3000 if tier == 'quick' else 40000
    for i in range(n):
        items = [gen_item(rng, DECLS) for _ in range(rng.randint(1, 6))]
        base = '\n'.join(render(items)) + '\n'
        variants = []
        bs = boundaries(items)
        for b in bs:
            kind, txt = unk_item(rng, 0, names_at(items, b[0]))
            # inside a free-form key=value section an undeclared assignment is a new key when the flag is off
            variants.append([kind, '\n'.join(render(items, {b: '@C@' + txt})) + '\n', in_keyval(items, b[0])])
        for _ in range(3):
            ins = {}
            kinds = []
            for b in rng.sample(bs, min(len(bs), rng.randint(2, 4))):
                kind, txt = unk_item(rng, 0, names_at(items, b[0]))
                ins[b] = txt
                kinds.append(kind)
            variants.append(['multi', '\n'.join(render(items, ins)) + '\n', any(in_keyval(items, b[0]) for b in ins)])
        # everything on one line
        kind, txt = unk_item(rng, 0, [d.name for d in DECLS])
        variants.append([kind, ' '.join(render(items, {((), rng.randint(0, len(items))): '@C@' + txt})) + '\n', False])
        # the unknown item is the very last thing in the input, no newline after it
        kind, txt = unk_item(rng, 0, [d.name for d in DECLS])
        variants.append([kind, '\n'.join(render(items, {((), len(items)): '@C@' + txt})), False])
        # a third of the insertions carry a comment of their own in front, and are then parsed with annotation support on:
        # the comment belongs to the skipped item and must not end up as the annotation of a declared option
        for var in variants:
            oneline = '\n' not in var[1].strip()
            if rng.random() < 0.35 and var[0] != 'multi':
                cm = rng.choice(['/* note */ ', '/* note */\n'] if oneline else ['# note\n', '// note\n', '/* note */ ', '/* two\n lines */\n'])
                var.append(cm)
            else:
                var.append('')
        yield {'kind': 'ins', 'base': base, 'variants': variants, 'marker': 1}
    for depth in (100, 1000, 10000, 100000):
        for shape in ('plain', 'titled', 'mixed'):
            yield {'kind': 'ladder', 'depth': depth, 'shape': shape}


def ladder_text(depth, shape):
    if shape == 'plain':
        return 'i = 3\n' + 'u { ' * depth + 'a = 1 ' + '} ' * depth + '\ns = "after"\n'
    if shape == 'titled':
        return 'i = 3\n' + 'u t { ' * depth + '} ' * depth + '\ns = "after"\n'
    return 'i = 3\n' + 'u { l = {1, 2} f(a) ' * depth + '} ' * depth + '\ns = "after"\n'


def script(spec):
    lines, sid = schema.emit_schema(DECLS)
    L = list(lines)
    if spec['kind'] == 'ladder':
        text = ladder_text(spec['depth'], spec['shape'])
        L += ['init 0 %d %d' % (sid, F_IGNORE_UNKNOWN), 'parse_buf 0 %s' % hx('i = 3\ns = "after"\n'), 'vhash 0', 'free 0',
              'init 0 %d %d' % (sid, F_IGNORE_UNKNOWN), 'parse_buf 0 %s' % hx(text), 'vhash 0', 'free 0']
        return '\n'.join(L)
    L += ['init 0 %d %d' % (sid, F_IGNORE_UNKNOWN), 'parse_buf 0 %s' % hx(spec['base']), 'vhash 0', 'free 0']
    L += ['init 0 %d %d' % (sid, F_IGNORE_UNKNOWN | F_COMMENTS), 'parse_buf 0 %s' % hx(spec['base']), 'vhash 0 1', 'free 0']
    for var in spec['variants']:
        text, cm = vtext(var)
        fl = F_IGNORE_UNKNOWN | (F_COMMENTS if cm else 0)
        L += ['note v', 'init 0 %d %d' % (sid, fl), 'parse_buf 0 %s' % hx(text), 'vhash 0 %d' % (1 if cm else 0), 'free 0',
              'note off', 'init 0 %d 0' % sid, 'parse_buf 0 %s' % hx(text), 'free 0']
    return '\n'.join(L)


def vtext(var):
    cm = var[3] if len(var) > 3 else ''
    return var[1].replace('@C@', cm), cm


def judge(spec, events, death):
    v = Verdict()
    if death is not None:
        n = len([e for e in events if e.get('ev') == 'note' and e.get('t') == 'v'])
        kind = spec['variants'][n - 1][0] if spec['kind'] == 'ins' and 0 < n <= len(spec['variants']) else spec['kind']
        if spec['kind'] == 'ladder':
            kind = 'ladder-%d' % spec['depth']
        v.bad('crash:%s@%s:%s' % (death['kind'], death['where'], kind), death['text'][-500:])
        return v
    if spec['kind'] == 'ladder':
        rs = [e for e in events if e.get('ev') == 'r' and e.get('op') == 'parse_buf']
        hs = [e for e in events if e.get('ev') == 'vhash']
        dg = [e for e in events if e.get('ev') == 'diag']
        v.nontrivial = True
        v.notes.setdefault('ladder_depths', set()).add(spec['depth'])
        if len(rs) < 2 or rs[1]['rc'] != 0 or hs[0]['h'] != hs[1]['h'] or dg:
            v.bad('ladder:%s:%d' % (spec['shape'], spec['depth']), 'unknown sections nested %d deep: rc=%s, values %s, diagnostics %r' % (
                spec['depth'], rs[1]['rc'] if len(rs) > 1 else None, 'equal' if len(hs) > 1 and hs[0]['h'] == hs[1]['h'] else 'differ', [unhx(e['msg']) for e in dg][:2]))
        return v
    head = []
    groups = []
    for e in events:
        if e.get('ev') == 'note':
            groups.append([e['t']])
        elif groups:
            groups[-1].append(e)
        else:
            head.append(e)
    br = [e for e in head if e.get('ev') == 'r' and e.get('op') == 'parse_buf']
    bh = [e for e in head if e.get('ev') == 'vhash']
    if not br or br[0]['rc'] != 0 or not bh:
        v.skipped = True          # base text not accepted (generator): nothing to compare
        return v
    first = next(k for k, e in enumerate(head) if e.get('ev') == 'vhash')
    base_diags = sorted(unhx(e['msg']) for e in head[:first] if e.get('ev') == 'diag')      # deprecated options legitimately report
    base_h = bh[0]['h']
    base_hc = bh[1]['h'] if len(bh) > 1 else None
    vi = -1
    for g in groups:
        r = [e for e in g[1:] if e.get('ev') == 'r' and e.get('op') == 'parse_buf']
        dg = [unhx(e['msg']) for e in g[1:] if e.get('ev') == 'diag']
        if g[0] == 'v':
            vi += 1
            kind = spec['variants'][vi][0]
            text, cm = vtext(spec['variants'][vi])
            if cm:
                v.notes['insertions_with_own_comment'] = v.notes.get('insertions_with_own_comment', 0) + 1
            h = [e for e in g[1:] if e.get('ev') == 'vhash']
            v.notes['insertions'] = v.notes.get('insertions', 0) + 1
            v.notes.setdefault('item_kinds', set()).add(kind)
            if kind not in ('assign', 'append'):
                v.notes.setdefault('nt', set()).add(zlib.crc32(text.encode('latin-1')))
            if not r or r[0]['rc'] != 0:
                v.bad('with-flag:rejected:%s' % kind, 'unknown item (%s) makes the text rejected under ignore-unknown: %r; text %r' % (kind, dg[:2], text[:300]))
            elif cm and h[0]['h'] != base_hc:
                v.bad('with-flag:values-or-annotations-changed:%s' % kind, 'unknown item (%s) preceded by a comment changes values or annotations under ignore-unknown + annotation support; text %r' % (kind, text[:300]))
            elif not cm and h[0]['h'] != base_h:
                v.bad('with-flag:values-changed:%s' % kind, 'unknown item (%s) changes values under ignore-unknown; text %r' % (kind, text[:300]))
            elif (sorted(set(dg)) != sorted(set(base_diags))) if cm else (sorted(dg) != base_diags):
                # (with a comment in front of the item the deprecation notice of the preceding option may repeat: that is the comment's doing, not the unknown item's; same notices = same set)
                v.bad('with-flag:diagnostic:%s' % kind, 'unknown item (%s) changes the diagnostics under ignore-unknown: %r, without it %r; text %r' % (kind, dg[:3], base_diags[:3], text[:200]))
        else:
            kind = spec['variants'][vi][0]
            text = vtext(spec['variants'][vi])[0]
            if len(spec['variants'][vi]) > 2 and spec['variants'][vi][2]:
                continue        # insertion inside a key=value section: without the flag an assignment there is a legitimate new key
            if not r or r[0]['rc'] != 1:
                v.bad('without-flag:accepted:%s' % kind, 'text with an undeclared item (%s) is accepted without ignore-unknown; text %r' % (kind, text[:300]))
            elif not dg:
                v.bad('without-flag:no-diagnostic:%s' % kind, 'text with an undeclared item rejected silently')
    v.nontrivial = True
    return v


def run(tier, seed, bindirs):
    t0 = time.time()
    res = core.explore('checks.c12', gen(tier, seed), bindirs, chunk=15, opts={'timeout': 600, 'solo_timeout': 120})
    texts = res.evaluations
    if not res.extra.get('harness_errors'):
        res.evaluations = res.judged = res.extra.get('insertions', 0) + len(res.extra.get('ladder_depths', ())) * 3
        res.nontrivial = res.extra.pop('nt', set())
    return core.finish(PROP, tier, seed, 'exploration', res, RULE, t0, floor=2000,
                       assumptions=['unknown items are well-formed by construction; malformed unknown items are C02\'s business'], more={'base_texts': texts})
