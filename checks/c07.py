"""C07 - everything acquired is released exactly once on every path (DESIGN.md 7/C07)."""
import itertools, time, zlib
from vlib import core, schema
from vlib import gen as G
from vlib.core import hx, unhx, Verdict, F_LIST, F_MULTI, F_TITLE, F_COMMENTS, F_KEYSTRVAL, F_NODEFAULT
from vlib.schema import D

PROP = 'C07'
VARIANTS = ['asan']
LEAKCHECK = True

SUBSUB = [D('y', 'int', default=0), D('ys', 'str', default='k')]
SEC = [D('x', 'int', default=9), D('xs', 'str', default='dx'), D('xl', 'str', F_LIST, default=['a', 'b']), D('pp', 'ptr', cbs='pf'),
       D('sub', 'sec', F_MULTI, sub=SUBSUB), D('include', 'func', cbs='I'), D('fn', 'func', cbs='F')]
DECLS = [D('i', 'int', default=1), D('s', 'str', default='dflt'), D('il', 'int', F_LIST, default=[1, 2]), D('sl', 'str', F_LIST, default=['a', 'b']),
         D('p', 'ptr', cbs='pf'), D('pl', 'ptr', F_LIST, cbs='pf'), D('sv', 'str', default='v', cbs='pv'), D('fn', 'func', cbs='F'), D('include', 'func', cbs='I'),
         D('sec', 'sec', F_MULTI | F_TITLE, sub=SEC), D('one', 'sec', 0, sub=[D('z', 'int', default=1), D('zs', 'str', default='q'), D('zp', 'ptr', cbs='pf')]),
         D('kv', 'sec', F_KEYSTRVAL, sub=[]), D('nd', 'sec', F_NODEFAULT, sub=[D('w', 'str', default='w')])]
NAMES = [d.name for d in DECLS]

FILES = {
    'inc1.conf': 'i = 2\ninclude("inc2.conf")\nsl += {"from1"}\n',
    'inc2.conf': 'sec deep { xs = "two" include("inc3.conf") }\n',
    'inc3.conf': 'x = 3\npp = obj\nsub { y = 1 }\n',
    'secinc.conf': 'xs = "inner"\nxl += {"z"}\npp = "o2"\n',
    'self.conf': 'i = 3\ninclude("self.conf")\n',
    'd0.conf': 'include("d1.conf")\n', 'd1.conf': 'include("d2.conf")\n', 'd2.conf': 'include("d3.conf")\n', 'd3.conf': 'include("d4.conf")\n',
    'd4.conf': 'include("d5.conf")\n', 'd5.conf': 'include("d6.conf")\n', 'd6.conf': 'include("d7.conf")\n', 'd7.conf': 'include("d8.conf")\n',
    'd8.conf': 'include("d9.conf")\n', 'd9.conf': 'sec last { include("d10.conf") }\n', 'd10.conf': 'x = 1\n',
    'top.conf': 'i = 4\ns = "from top"\ninclude("inc1.conf")\n', 'inc3top.conf': 'il = {3}\nsec f { x = 3 }\n',
}

BASES = [
    'i = 5\ns = "str"\nil = {1, 2, 3}\nsl += {"x", "y"}\np = obj\npl = {a, b, c}\nfn()\nfn(one)\nfn(one, "two", three)\n',
    'sec a { x = 1 xs = "s" xl = {p, q} pp = o sub { y = 1 ys = "t" } sub { } fn(a, b) }\nsec b { }\nsec a { x = 2 pp = again }\none { z = 2 zs = "zz" zp = ptr }\n',
    '# note one\ni = 6\n/* note two */\ns = "annotated"\n// three\nil = {7}\n# four\nsl = first\nkv { alpha = "1" beta = two alpha = "3" }\nnd { w = "set" }\nnd { }\n',
    'include("inc1.conf")\ni = 9\nsec t { include("secinc.conf") x = 4 }\ninclude("inc1.conf")\n',
    'p = first\np = second\npl = {a}\npl += {b, c}\npl = {}\npl = d\nsv = "checked"\none { zp = a }\none { zp = b }\nsec s { pp = x }\nsec s { }\n',
    'i = 1\ninclude("self.conf")\ns = "never"\n',                                 # runs into the include depth limit
    'include("d0.conf")\ninclude("d1.conf")\nsec q { include("nosuch.conf") }\n',  # one level too deep, exactly the limit, missing file
    'i = 2\ninclude("~nosuchuser_verif/x.conf")\n',                                 # a tilde form that names no account
    'include("~/nosuch_verif_file.conf")\n',
    'i = 3\ninclude("/dev/null")\nsec n { include("/dev/null") x = 2 }\ni = 4\n',
    'sec "%s" { x = 1 }\nsec "%s" { }\nsec "%s" { x = 2 }\ns = "%s"\n' % ('T' * 300, 'U' * 5000, 'T' * 300, 'v' * 9000),      # titles and values beyond any plausible fixed limit
]

RULE = ('valid base texts (lists, function calls with 0-3 arguments, nested/titled/key=value/no-default sections, includes 1-3 deep, pointer options with release callback, '
        'annotations on/off, search path on/off) x every token position as an error point, twice (text cut there; token replaced by a wrong one), also inside the included files; '
        'callback failure at the k-th invocation for every k; all API histories to depth N over parse ok/bad, setters, setmulti on an annotated option, addtsec, rm*sec, setcomment, '
        'print, cfg_parse(file) twice / another file / cfg_parse_fp on the same context, a string set to its own current value, with and without search path. Monitors per case after cfg_free of every context: AddressSanitizer (double free / use after free), allocmon live-block table empty, '
        'LeakSanitizer recoverable check, /proc/self/fd count and library FILE table balanced, every pointer token handed out released exactly once. '
        'non-trivial: the case aborts or calls a remove / bulk-set API; distinct = case hash')


def tokenize(text):
    """split a configuration text into tokens at white space outside quotes (the base texts keep tokens blank-separated or use punctuation)"""
    toks, cur, q = [], '', None
    i = 0
    while i < len(text):
        c = text[i]
        if q:
            cur += c
            if c == '\\' and i + 1 < len(text):
                cur += text[i + 1]
                i += 1
            elif c == q:
                q = None
        elif c in '"\'':
            q = c
            cur += c
        elif c in '#' or text.startswith('//', i):
            j = text.find('\n', i)
            j = len(text) if j < 0 else j
            if cur:
                toks.append(cur)
                cur = ''
            toks.append(text[i:j] + '\n')
            i = j
        elif text.startswith('/*', i):
            j = text.find('*/', i) + 2
            if cur:
                toks.append(cur)
                cur = ''
            toks.append(text[i:j])
            i = j - 1
        elif c in ' \t\n':
            if cur:
                toks.append(cur)
                cur = ''
        elif c in '{}(),=':
            if cur and not (c == '=' and cur == '+'):
                toks.append(cur)
                cur = ''
            if c == '=' and cur == '+':
                toks.append('+=')
                cur = ''
            else:
                toks.append(c)
        else:
            cur += c
        i += 1
    if cur:
        toks.append(cur)
    return toks


WRONG = {'{': ')', '}': '=', '(': '{', ')': '}', '=': ',', '+=': '}', ',': '='}


def corrupt(tok):
    if tok in WRONG:
        return WRONG[tok]
    if tok.startswith('#') or tok.startswith('//') or tok.startswith('/*'):
        return '"unterminated'
    return '{' if tok[0].isalpha() else 'nosuchname'


def variants_of(text):
    toks = tokenize(text)
    for k in range(len(toks) + 1):
        yield 'cut', k, ' '.join(toks[:k]) + '\n'
    for k in range(len(toks)):
        t2 = list(toks)
        t2[k] = corrupt(toks[k])
        yield 'corrupt', k, ' '.join(t2) + '\n'
        t3 = list(toks)
        t3[k] = '"open string'
        if k % 3 == 0:
            yield 'open-string', k, ' '.join(t3) + '\n'


def gen(tier, seed):
    rng = core.seeded_rng(seed, 'c07')
    bases = list(BASES)
    nrand = 20 if tier == 'quick' else 300
    for _ in range(nrand):
        toks = G.gen_text(rng, DECLS, fancy=False, to={'ptr': True})
        if 3 < len(toks) < 60:
            bases.append(' '.join(t[1] for t in toks) + '\n')
    for bi, base in enumerate(bases):
        for fl, sp in ((0, False), (F_COMMENTS, False), (0, True), (F_COMMENTS, True)):
            if bi >= len(BASES) and (fl, sp) != (F_COMMENTS, False):
                continue
            yield {'kind': 'ok', 'text': base, 'flags': fl, 'sp': sp, 'files': FILES}
            for kind, k, txt in variants_of(base):
                yield {'kind': kind, 'text': txt, 'flags': fl, 'sp': sp, 'files': FILES, 'k': k}
            for k in range(1, 40):
                yield {'kind': 'cbfail', 'text': base, 'flags': fl, 'sp': sp, 'files': FILES, 'k': k}
    # errors inside included files (at every token position of each file)
    for fname in ('inc1.conf', 'inc2.conf', 'inc3.conf', 'secinc.conf'):
        for kind, k, txt in variants_of(FILES[fname]):
            files = dict(FILES)
            files[fname] = txt
            for sp in (False, True):
                yield {'kind': 'in-include:' + kind, 'text': BASES[3], 'flags': F_COMMENTS, 'sp': sp, 'files': files, 'k': k}
    # API histories
    depth = 3 if tier == 'quick' else 4
    n = len(HOPS)
    for d in range(1, depth + 1):
        for seq in itertools.product(range(n), repeat=d):
            yield {'kind': 'history', 'ops': list(seq), 'sp': (sum(seq) + d) % 2 == 0, 'flags': F_COMMENTS, 'files': FILES}
    for _ in range(300 if tier == 'quick' else 5000):
        yield {'kind': 'history', 'ops': [rng.randrange(n) for _ in range(rng.randint(5, 12))], 'sp': rng.random() < 0.5, 'flags': rng.choice([0, F_COMMENTS]), 'files': FILES}


def optloc(name):
    return '0:%d' % NAMES.index(name)


HOPS = [
    ['parse_buf 0 %s' % hx(BASES[0])],
    ['parse_buf 0 %s' % hx(BASES[1])],
    ['parse_buf 0 %s' % hx(BASES[2])],
    ['parse_buf 0 %s' % hx(BASES[3])],
    ['parse_buf 0 %s' % hx('sec a { x = 1 pp = o } sec b { pp = ')],                        # bad: EOF in nested section
    ['parse_buf 0 %s' % hx('fn(a, b, {')],                                                    # bad: inside call arguments
    ['parse_buf 0 %s' % hx('include("inc1.conf")\nsec q { include("nosuch.conf") }\n')],      # bad: failing include
    ['setstr 0 %s %s' % (hx('s'), hx('api')), 'setint 0 %s 3 1' % hx('il'), 'addlist 0 %s str 2 %s %s' % (hx('sl'), hx('m'), hx('n'))],
    ['setcomment 0 %s %s' % (hx('il'), hx('annotated')), 'setmulti 0 %s 2 %s %s' % (hx('il'), hx('4'), hx('5'))],
    ['setcomment 0 %s %s' % (hx('sl'), hx('annotated')), 'setmulti 0 %s 2 %s %s' % (hx('il'), hx('4'), hx('zz'))],
    ['addtsec 0 %s %s' % (hx('sec'), hx('new')), 'setstr 0 %s %s' % (hx("sec=new|xs"), hx('v')), 'setopt 0 0:9.0:3 %s' % hx('ptrobj')],
    ['rmnsec 0 %s 0' % hx('sec')],
    ['rmtsec 0 %s %s' % (hx('sec'), hx('a')), 'rmsec 0 %s' % hx('sec=new')],
    ['rmsec 0 %s' % hx('one'), 'rmsec 0 %s' % hx('kv')],
    ['print 0', 'setopt 0 %s %s' % (optloc('p'), hx('viaapi')), 'setmulti 0 %s 2 %s %s' % (hx('pl'), hx('m1'), hx('m2'))],
    ['setlist 0 %s str 0' % hx('sl'), 'setlist 0 %s int 2 8 9' % hx('il'), 'setmulti 0 %s 1 %s' % (hx('s'), hx('multi'))],
    ['free 0', 'init 0 @SID @FL', '@SP'],
    # the file entry points, repeated on the same context by the histories (same name twice, another name, a stream after a file)
    ['parse_file 0 %s' % hx('top.conf')],
    ['parse_file 0 %s' % hx('inc3top.conf'), 'parse_fp 0 %s' % hx('i = 8\nsl += {"fp"}\n')],
    # a string option set to its own current value (the argument aliases the stored string)
    ['selfstr 0 %s 0 0' % hx('s'), 'selfstr 0 %s 1 1' % hx('sl'), 'selfstr 0 %s 0 1' % hx('sl')],
    # look-ups through malformed and well-formed quoted titles (each copies and unescapes the title), function calls with 15..17 and 40 arguments
    ['getopt 0 %s' % hx("sec='a\\xb'|x"), 'getopt 0 %s' % hx("sec='a\\'|x"), 'getsec 0 %s' % hx("sec='open"), 'getopt 0 %s' % hx("sec='a'|x"), 'rmsec 0 %s' % hx("sec='no\\q'"),
     'setint 0 %s 5' % hx("sec='b\\z'|x")],
    ['parse_buf 0 %s' % hx('fn(%s)\nfn(%s)\nfn(%s)\nsec a { fn(%s) }\n' % (', '.join('a%d' % k for k in range(15)), ', '.join('b%d' % k for k in range(16)),
                                                                            ', '.join('c%d' % k for k in range(17)), ', '.join('d%d' % k for k in range(40))))],
    ['add_searchpath 0 %s' % hx('~nosuchuser_verif/dir'), 'add_searchpath 0 %s' % hx('~'), 'parse_file 0 %s' % hx('~nosuchuser_verif/top.conf'), 'tilde %s' % hx('~nosuchuser_verif')],
]


def script(spec):
    lines, sid = schema.emit_schema(DECLS)
    L = ['mkdir %s' % hx('spdir'), 'mkdir %s' % hx('spdir0'), 'mkdir %s' % hx('spdir0/inc1.conf'), 'mkdir %s' % hx('spdir0/secinc.conf')]
    for name, content in spec['files'].items():
        L.append('mkfile %s %s' % (hx(('spdir/' if spec['sp'] else '') + name), hx(content)))
    L += lines
    L.append('init 0 %d %d' % (sid, spec['flags']))
    spline = 'add_searchpath 0 %s' % hx('spdir') if spec['sp'] else 'note nosp'
    if spec['sp']:
        L.append('add_searchpath 0 %s' % hx('spdir0'))      # searched first; holds directories named like two of the include files
    L.append(spline)
    if spec['kind'] == 'history':
        for k in spec['ops']:
            for l in HOPS[k]:
                L.append(l.replace('@SID', str(sid)).replace('@FL', str(spec['flags'])).replace('@SP', spline))
        L.append('print 0')
        return '\n'.join(L)
    if spec['kind'] == 'cbfail':
        L.append('failat %d' % spec['k'])
    L.append('parse_buf 0 %s' % hx(spec['text']))
    L.append('failat 0')
    L.append('print 0')
    L.append('parse_buf 0 %s' % hx('i = 1\n'))
    return '\n'.join(L)


def judge(spec, events, death):
    v = Verdict()
    kind = spec['kind']
    tag = kind if kind != 'history' else 'history'
    if death is not None:
        where = death['where']
        v.bad('%s@%s:%s' % (death['kind'], where, tag), '%s: %s' % (describe(spec), death['text'][-700:]))
        return v
    end = [e for e in events if e.get('ev') == 'endcase']
    if not end:
        v.bad('harness:short-log', 'no endcase')
        return v
    e = end[0]
    rs = [x for x in events if x.get('ev') == 'r' and x.get('op') == 'parse_buf']
    aborted = any(x['rc'] != 0 for x in rs)
    v.nontrivial = aborted or (kind == 'history' and any(k >= 8 for k in spec['ops']))
    rs = rs  # (file entry points log under their own op names; their failures are not 'aborted parses' here)
    v.notes.setdefault('kinds', set()).add(kind.split(':')[0])
    if aborted:
        v.notes['aborted_parses'] = 1
    if e['live']:
        sites = sorted(set('%s' % s['f'] for s in e.get('sites', [])))
        v.bad('leak:%s:%s' % ('+'.join(sites)[:80], tag.split(':')[0]), '%s: %d blocks still allocated after cfg_free, allocated in %s' % (describe(spec), e['live'], sites))
    if e['files']:
        v.bad('file-leak:%s' % tag, '%s: %d library FILE handles still open: %r' % (describe(spec), e['files'], e.get('fsites')))
    if e['fds'] != e['fds0']:
        v.bad('fd-leak:%s' % tag, '%s: %d descriptors open, %d before the case' % (describe(spec), e['fds'], e['fds0']))
    if e['lsan'] not in (0, -1):
        v.bad('lsan-leak:%s' % tag, '%s: LeakSanitizer reports unreachable blocks after cfg_free' % describe(spec))
    if e['toks'] != 0:
        v.bad('ptr-not-released:%s' % tag, '%s: %d pointer values handed out by the parse callback were never given to the release callback' % (describe(spec), e['toks']))
    out = {}
    for x in events:
        if x.get('ev') == 'cb' and x.get('k') == 'parse' and x.get('tok', -1) >= 0:
            out[x['tok']] = 0
        if x.get('ev') == 'cb' and x.get('k') == 'free':
            if not x['ok'] or x['tok'] not in out:
                v.bad('ptr-bad-release:%s' % tag, '%s: release callback called with a value it was not given / twice' % describe(spec))
            else:
                out[x['tok']] += 1
    twice = [t for t, n in out.items() if n > 1]
    if twice:
        v.bad('ptr-released-twice:%s' % tag, '%s: pointer values %r released more than once' % (describe(spec), twice))
    v.notes['ptr_tokens'] = len(out)
    return v


def describe(spec):
    if spec['kind'] == 'history':
        return 'history %r sp=%s' % ([HOPS[k][0][:40] for k in spec['ops']], spec['sp'])
    return '%s@%s flags=%d sp=%s text=%r' % (spec['kind'], spec.get('k'), spec['flags'], spec['sp'], spec['text'][:160])


def run(tier, seed, bindirs):
    t0 = time.time()
    res = core.explore('checks.c07', gen(tier, seed), bindirs, chunk=60)
    return core.finish(PROP, tier, seed, 'fault_enumeration', res, RULE, t0, floor=2000,
                       assumptions=['allocmon sees every allocation issued by confuse.c and the generated lexer (force-included wrappers); libc-internal allocations are judged by LeakSanitizer only',
                                    'LeakSanitizer is consulted per case through __lsan_do_recoverable_leak_check'])
