"""C02 - no input text can corrupt memory, hang or kill the host process (DESIGN.md 7/C02)."""
import glob, hashlib, json, os, re, shutil, subprocess, sys, time
from concurrent.futures import ThreadPoolExecutor
from vlib import core, schema
from vlib import gen as G
from vlib.core import hx, unhx, Verdict, F_LIST, F_MULTI, F_TITLE, F_COMMENTS, F_IGNORE_UNKNOWN, F_KEYSTRVAL, F_NOCASE
from vlib.schema import D

PROP = 'C02'
VARIANTS = ['asan', 'fuzz', 'msan', 'plain']
HANG_IS_VIOLATION = True

SUB2 = [D('y', 'int', default=0), D('yl', 'str', F_LIST, default=['a', 'b']), D('include', 'func', cbs='I')]
SUB1 = [D('x', 'int', default=9), D('xs', 'str', default='d'), D('xl', 'int', F_LIST, default=[1, 2]), D('sub', 'sec', F_MULTI, sub=SUB2),
        D('tsub', 'sec', F_MULTI | F_TITLE, sub=SUB2), D('include', 'func', cbs='I'), D('fn', 'func', cbs='F')]
DECLS = [D('i', 'int', default=1), D('f', 'float', default=0.5), D('b', 'bool', default=0), D('s', 'str', default='dflt'), D('il', 'int', F_LIST, default=[1, 2]),
         D('sl', 'str', F_LIST, default=['a']), D('p', 'ptr', cbs='pf'), D('sec', 'sec', F_MULTI | F_TITLE, sub=SUB1), D('one', 'sec', 0, sub=SUB1),
         D('kv', 'sec', F_KEYSTRVAL, sub=[]), D('include', 'func', cbs='I'), D('fn', 'func', cbs='F')]

RULE = ('(a) coverage-guided fuzzing (libFuzzer + ASan + UBSan, 16 processes, bounded by -runs): byte 0 selects one of 8 context flag sets (+validator, +search path), byte 1 the entry point '
        '(cfg_parse_buf, cfg_parse_fp on arbitrary bytes, cfg_parse on a file, or through include("file")), the rest is the text; after the parse the tree is walked, printed, parsed into again and freed; '
        'the target aborts on bytes on stdout, a read of stdin or a return code outside {success, parse error, file error}. (b) deterministic pathological shapes through the driver: tokens of 1 B..16 MiB '
        '(string, bare word, comment, numeral), nesting ladders, every unterminated construct at end of buffer / stream / file / included file, NUL bytes, directories, /dev/null, dangling and looping '
        'symlinks as parse and include targets, self-include, empty comments with annotations, lone backslashes. (c) grammar-derived and mutated texts on the MemorySanitizer build and a sample under valgrind memcheck. '
        'non-trivial: input reached a new libFuzzer feature or is an enumerated shape; distinct = input hash')

SEEDS = [
    'i = 5\ns = "str"\nil = {1, 2, 3}\nsl += {"x"}\nf = 2.5\nb = yes\n',
    'sec a { x = 1 xs = "s" xl += {5} sub { y = 1 yl = {} } tsub t { } fn(a, "b") }\nsec a { }\nusec u { }\nmsec { y = 2 }\none { x = 2 }\nnd { y = 1 }\n',
    '# comment\n// another\n/* block\n comment */\ni = 0x1f\nf = 1e3\nicb = "abc"\ndep = "x"\ndrop = 4\n',
    'kv { alpha = "1" beta = two "quoted key" = 3 }\nroot r { y = 1 }\nroot r { }\nfn()\nfn(one)\ninclude("wrap.conf")\n',
    's = "esc \\n\\t\\x41\\101\\e ${VERIF_FUZZ_VAR} ${NOPE:-dflt} \\\n cont"\ns = \'single \\\' q\'\nsl = {a, "b", \'c\', ${VERIF_FUZZ_VAR}}\n',
    'unknown_opt = 5\nunk { a = 1 b { c = {1,2} } f(x) }\nunk t { }\nunk += {1}\nunk(1, 2)\ni = 3\n',
]
DICT = ['"i"', '"il"', '"sl"', '"sec"', '"usec"', '"msec"', '"one"', '"nd"', '"kv"', '"root"', '"include"', '"fn"', '"sub"', '"tsub"', '"icb"', '"dep"', '"drop"',
        '"="', '"+="', '"{"', '"}"', '"("', '")"', '","', '"\\""', '"\'"', '"/*"', '"*/"', '"//"', '"#"', '"${"', '"${VERIF_FUZZ_VAR}"', '":-"', '"\\\\"', '"\\\\x"', '"\\\\777"',
        '"\\\\\\x0a"', '"true"', '"0x"', '"0b"', '"1e999"', '"99999999999999999999"', '"in.conf"', '"wrap.conf"', '"\\x00"', '"sec=\'"', '"\\\\\'"', '"|x"', '"one|"', '"=0|"']


def run_fuzz(bindir, tier, seed, res):
    work = core.mktemp_dir('verif_fuzz_')
    runs = 60000 if tier == 'quick' else 2000000
    nproc = core.NPROC
    dictp = os.path.join(work, 'dict')
    with open(dictp, 'w') as f:
        f.write('\n'.join(DICT) + '\n')
    seeds = []
    for k, s in enumerate(SEEDS):
        for fl in range(8):
            for mode in range(4):
                seeds.append(bytes([fl | (8 if k % 2 else 0) | (16 if mode >= 2 and k % 3 == 0 else 0), mode]) + s.encode('latin-1'))
    committed = sorted(glob.glob(os.path.join(core.VERIF, 'corpus', 'c02', '*')))
    for p in committed:
        with open(p, 'rb') as f:
            seeds.append(f.read())
    procs = []
    env = dict(os.environ)
    env.update({'ASAN_OPTIONS': 'abort_on_error=1:detect_leaks=1:allocator_may_return_null=1:handle_abort=1', 'UBSAN_OPTIONS': 'print_stacktrace=1:halt_on_error=1:abort_on_error=1',
                'VERIF_FUZZ_DIR': work, 'LC_ALL': 'C'})
    for i in range(nproc):
        cdir = os.path.join(work, 'corpus%d' % i)
        adir = os.path.join(work, 'art%d' % i)
        os.makedirs(cdir)
        os.makedirs(adir)
        for k, s in enumerate(seeds):
            with open(os.path.join(cdir, 'seed%03d' % k), 'wb') as f:
                f.write(s)
        cmd = [os.path.join(bindir, 'fuzz_parse'), '-runs=%d' % runs, '-seed=%d' % (seed * 100 + i + 1), '-max_len=2048', '-timeout=25', '-rss_limit_mb=2048',
               '-dict=' + dictp, '-artifact_prefix=' + adir + '/', '-print_final_stats=1', '-use_value_profile=1', cdir]
        logf = open(os.path.join(work, 'log%d' % i), 'wb')
        procs.append((subprocess.Popen(cmd, stdout=subprocess.DEVNULL, stderr=logf, env=env, cwd=work), logf, adir, i))
    total_exec = 0
    features = 0
    cov = 0
    corpus = 0
    for p, logf, adir, i in procs:
        try:
            p.wait(timeout=3600 if tier == 'quick' else 6 * 3600)
        except subprocess.TimeoutExpired:
            p.kill()
            res.inconclusive += 1
        logf.close()
        with open(os.path.join(work, 'log%d' % i), 'rb') as f:
            log = f.read().decode('latin-1')
        m = re.search(r'stat::number_of_executed_units:\s*(\d+)', log)
        if m:
            total_exec += int(m.group(1))
        cf = re.findall(r'cov: (\d+) ft: (\d+) corp: (\d+)', log)
        if cf:
            cov = max(cov, int(cf[-1][0]))
            features = max(features, int(cf[-1][1]))
            corpus = max(corpus, int(cf[-1][2]))
        arts = sorted(glob.glob(os.path.join(adir, '*')))
        if p.returncode != 0 or arts:
            kind = 'fuzz:' + classify_fuzz_log(log)
            rdir = os.path.join(core.VERIF, 'replays', PROP)
            os.makedirs(rdir, exist_ok=True)
            data = b''
            if arts:
                with open(arts[0], 'rb') as f:
                    data = f.read()
            res.violations.append({'key': kind, 'msg': log[-1500:], 'spec': {'kind': 'fuzz-artifact', 'hex': data.hex()}, 'script': ''})
    res.evaluations += total_exec
    res.judged += total_exec
    res.extra['fuzz_executions'] = total_exec
    res.extra['fuzz_features'] = features
    res.extra['fuzz_edge_coverage'] = cov
    res.extra['fuzz_corpus_units'] = corpus
    # distinct non-trivial inputs: the corpus units that reached new features
    for i in range(nproc):
        for p in glob.glob(os.path.join(work, 'corpus%d' % i, '*')):
            if not os.path.basename(p).startswith('seed'):
                with open(p, 'rb') as f:
                    res.nontrivial.add(hashlib.sha1(f.read()).hexdigest()[:16])
    if len(res.samples) < 3:
        res.samples.append({'fuzz_seed_example': SEEDS[1][:120]})
    shutil.rmtree(work, ignore_errors=True)


def classify_fuzz_log(log):
    m = re.search(r'C02-MONITOR: ([^\n]*)', log)
    if m:
        return 'monitor:' + m.group(1)[:50].replace(' ', '-')
    m = re.search(r'ERROR: (?:Address|Leak)Sanitizer: ([A-Za-z0-9_-]+)', log)
    where = ''
    for fn, loc in re.findall(r'#\d+ 0x[0-9a-f]+ in (\S+) (\S+)', log):
        if 'confuse.c' in loc or 'lexer.' in loc:
            where = fn
            break
    if m:
        return '%s@%s' % (m.group(1), where)
    m = re.search(r'runtime error: ([^\n]*)', log)
    if m:
        return 'ubsan:' + re.sub(r'0x[0-9a-f]+|\d+', 'N', m.group(1))[:50] + '@' + where
    if 'ERROR: libFuzzer: timeout' in log:
        return 'timeout'
    if 'fuzz target exited' in log:
        return 'process-exit'
    if 'ERROR: libFuzzer: out-of-memory' in log:
        return 'out-of-memory'
    if 'deadly signal' in log:
        return 'deadly-signal@' + where
    return 'died'


# ---- (b) pathological shapes through the driver

def shapes(tier):
    # sizes up to 256 KiB run on the ASan build; the MiB sizes only on the plain build ('big-' names): the scanner grows
    # its scratch buffer by 32 bytes per realloc, which ASan's always-copying realloc turns into minutes per MiB
    # (16 MiB tokens were dropped: the generated scanner re-scans a token from its start after every 8 KiB refill, so the
    # time is quadratic in the token size - 1 MiB 0.9 s, 4 MiB 11 s, 16 MiB minutes on a loaded box - and the watchdog called
    # that a hang; 4 MiB with a 20-minute solitary budget keeps a x100 margin)
    big = [1, 31, 32, 33, 4095, 4096, 16384, 16385, 65536, 262144, 1 << 20, 1 << 22]
    S = []
    for n in big:
        S.append(('huge-dq-string-%d' % n, 's = "' + 'a' * n + '"\n'))
        S.append(('huge-sq-string-%d' % n, "s = '" + 'b' * n + "'\n"))
        S.append(('huge-word-%d' % n, 's = ' + 'w' * n + '\n'))
        S.append(('huge-comment-%d' % n, '# ' + 'c' * n + '\ni = 2\n'))
        S.append(('huge-block-comment-%d' % n, '/* ' + 'c ' * (n // 2) + '*/ i = 2\n'))
        S.append(('huge-numeral-%d' % n, 'i = ' + '9' * n + '\n'))
        S.append(('huge-name-%d' % n, 'n' * n + ' = 1\n'))
        S.append(('huge-blank-%d' % n, ' ' * n + 'i = 3' + '\n' * min(n, 100000)))
    for n in (10, 1000, 20000, 100000):
        S.append(('many-items-%d' % n, 'i = 1\n' * n))
        S.append(('long-list-%d' % n, 'il = {' + ', '.join(['7'] * n) + '}\n'))
        S.append(('many-sections-%d' % n, 'sec t%d { }\n' * 0 + ''.join('sec t%d { x = %d }\n' % (k, k) for k in range(min(n, 20000)))))
        S.append(('same-title-%d' % n, 'sec t { x = 1 }\n' * min(n, 20000)))
        S.append(('many-args-%d' % n, 'fn(' + ', '.join(['a'] * n) + ')\n'))
        S.append(('open-braces-%d' % n, 'one { ' * n))
        S.append(('close-braces-%d' % n, '} ' * n))
        S.append(('open-parens-%d' % n, 'fn' + '(' * n))
        S.append(('nested-unknown-%d' % n, 'u { ' * n + '} ' * n))
        S.append(('nested-lists-%d' % n, 'il = ' + '{' * n + '}' * n))
        S.append(('backslashes-%d' % n, 's = "' + '\\\\' * n + '"\n'))
        S.append(('continuations-%d' % n, 's = "' + '\\\n' * n + '"\n'))
        S.append(('substitutions-%d' % n, 's = "' + '${VERIF_C02_V}' * min(n, 20000) + '"\n'))
        S.append(('comment-stars-%d' % n, '/*' + '*' * n + '/ i = 1\n'))
        S.append(('hashes-%d' % n, '#' * n + '\n' + '/' * n + '\ni = 1\n'))
    # unterminated constructs / odd endings
    for name, t in [('open-dq', 's = "abc'), ('open-sq', "s = 'abc"), ('open-comment', 'i = 1 /* abc'), ('open-subst', 's = ${abc'), ('open-subst-dq', 's = "${abc'),
                    ('lone-backslash-dq', 's = "abc\\'), ('lone-backslash-sq', "s = 'abc\\"), ('lone-backslash', 's = abc\\'), ('backslash-only', '\\'), ('dq-only', '"'), ('sq-only', "'"),
                    ('slash-only', '/'), ('slash-star', '/*'), ('star-slash', '*/'), ('dollar', '$'), ('dollar-brace', '${'), ('hash', '#'), ('slashes', '//'), ('empty-block', '/**/'),
                    ('empty', ''), ('newline', '\n'), ('cr', '\r'), ('crlf-text', 'i = 1\r\ns = "a"\r\n'), ('bom', '\xef\xbb\xbfi = 1\n'), ('ff', '\x0ci = 1\x0b\n'),
                    ('eq-only', '='), ('pluseq', '+='), ('plus', '+'), ('comma', ','), ('title-noname', '"t" { }'), ('str-name', '"i" = 3'), ('empty-name', '"" = 3'),
                    ('empty-title', 'sec "" { }'), ('eq-eq', 'i == 3'), ('path-name', 'one|x = 42\nsec=a|x = 1\n'), ('bad-octal', 's = "\\777"'), ('bad-escape', 's = "\\9"'),
                    ('hex-end', 's = "\\x"'), ('hex-end2', 's = "\\x4'), ('octal-end', 's = "\\1'), ('high-bytes', 's = \xff\xfe\x80\n\xff = 1\n'), ('ctrl', 's = \x01\x02\x7f\n'),
                    ('empty-comment-then', '#\ni = 1\n//\ns = "x"\n/**/\nil = {1}\n'), ('comment-in-item', 'i /* a */ = /* b */ 5 // c\nil = { 1, # x\n 2 }\n'),
                    ('include-self-arg', 'include(include)'), ('include-noarg', 'include()'), ('include-many', 'include(a, b, c)'), ('func-as-value', 'i = fn'), ('sec-as-value', 'i = sec'),
                    ('assign-sec', 'sec = 5'), ('assign-func', 'fn = 5'), ('call-int', 'i(1)'), ('title-on-untitled', 'one t { }'), ('notitle', 'sec { }'), ('dup-brace', 'one { { } }'),
                    ('ptr-values', 'p = a\np = b\np = "c"\n'), ('kv-weird', 'kv { "" = 1 a|b = 2 x=y = 3 kv { } }\n'), ('tilde-include', 'include("~nosuchuser_verif/x")\ninclude("~/nosuch_verif")\n')]:
        S.append((name, t))
    # item names that are paths with quoted, escaped titles (the by-path resolver copies and unescapes them)
    dq = lambda raw: '"' + raw.replace('\\', '\\\\').replace('"', '\\"') + '"'
    for k in list(range(0, 40)) + [62, 63, 64, 127, 128, 1000]:
        t = 'a' * k
        names = ["sec='%sit\\'s'|x" % t, "sec='%s\\\\'|x" % t, "sec='%s|x" % t, "sec='%s\\" % t, "sec='%s\\'|xl" % t, "sec='%s\\q'|x" % t]
        S.append(('path-quoted-title-%d' % k, 'sec "%sit\'s" { x = 1 }\n' % t + ''.join('%s = %d\n' % (dq(n), i + 2) for i, n in enumerate(names))))
    return S


def shape_specs(tier):
    out = []
    for name, text in shapes(tier):
        for entry in ('buf', 'fp', 'file', 'include'):
            for fl in (0, F_COMMENTS, F_IGNORE_UNKNOWN | F_COMMENTS):
                if len(text) > 100000 and (fl != F_COMMENTS or entry == 'include'):
                    continue
                heavy = len(text) > 600000 or name.endswith('-100000')
                out.append({'kind': 'shape', 'name': name, 'entry': entry, 'flags': fl, 'tier': tier, 'small': len(text) < 2000, 'heavy': heavy})
    longs = ['longname-%d' % n for n in (200, 255, 256, 257, 1000, 4090, 4095, 4096, 4097, 5000, 70000)] + \
            ['tildelong-%d' % n for n in (30, 31, 32, 33, 63, 64, 255, 256, 257, 300, 1024, 5000, 70000)] + \
            ['longdir-%d' % n for n in (255, 1024, 4090, 4096, 5000)] + ['tilde-only', 'tilde-user-only', 'tilde-slash', 'slashdir-1', 'slashdir-2', 'slashdir-7']
    for t in ['dir', 'devnull', 'dangling', 'loop', 'missing', 'selfinc', 'nulfile', 'emptyfile', 'notdir'] + longs:
        for entry in ('file', 'include'):
            for sp in (0, 1):
                out.append({'kind': 'target', 'name': t, 'entry': entry, 'flags': F_COMMENTS, 'sp': sp})
    return out


_shape_cache = {}


def text_of(spec):
    name = spec['name']
    if name not in _shape_cache:
        _shape_cache.clear()        # keep at most one tier's texts; big ones are rebuilt on demand
        for n, t in shapes(spec.get('tier', 'quick')):
            if len(t) <= 200000 or n == name:
                _shape_cache[n] = t
    return _shape_cache[name]


def script(spec):
    lines, sid = schema.emit_schema(DECLS)
    L = list(lines)
    if spec['kind'] == 'text':
        L += ['init 0 %d %d' % (sid, spec['flags']), 'parse_buf 0 %s' % hx(spec['text'])]
    elif spec['kind'] == 'shape':
        text = text_of(spec)
        L += ['setenv %s %s' % (hx('VERIF_C02_V'), hx('v')), 'init 0 %d %d' % (sid, spec['flags'])]
        e = spec['entry']
        if e == 'buf':
            L.append('parse_buf 0 %s' % hx(text.replace('\0', '')))
        elif e == 'fp':
            L.append('parse_fp 0 %s' % hx(text + ('\0 = \0' if 'huge' not in spec['name'] else '')))
        else:
            L.append('mkfile %s %s' % (hx('shape.conf'), hx(text)))
            if e == 'file':
                L.append('parse_file 0 %s' % hx('shape.conf'))
            else:
                L.append('parse_buf 0 %s' % hx('i = 7\ninclude("shape.conf")\ns = "after"\n'))
    else:
        L += ['mkdir %s' % hx('adir'), 'mkdir %s' % hx('spd'), 'symlink %s %s' % (hx('nowhere'), hx('dangling')), 'symlink %s %s' % (hx('loop2'), hx('loop1')),
              'symlink %s %s' % (hx('loop1'), hx('loop2')), 'mkfile %s %s' % (hx('selfinc'), hx('i = 2\ninclude("selfinc")\n')), 'mkfile %s %s' % (hx('nulfile'), hx('i = 1\0\0\ns = "a\0b"\n\0')),
              'mkfile %s %s' % (hx('emptyfile'), hx('')), 'mkfile %s %s' % (hx('plain.conf'), hx('i = 1\n')), 'symlink %s %s' % (hx('/dev/null'), hx('devnull'))]
        if spec.get('sp'):
            for nm in ('adir', 'dangling', 'loop1', 'selfinc', 'nulfile', 'emptyfile', 'devnull'):
                L.append('symlink %s %s' % (hx('../' + nm), hx('spd/' + nm)))
        L.append('init 0 %d %d' % (sid, spec['flags']))
        if spec.get('sp'):
            L.append('add_searchpath 0 %s' % hx('spd'))
        if spec['name'].startswith('longname-'):
            name = 'n' * int(spec['name'].split('-')[1])                         # a (missing) file name around PATH_MAX / NAME_MAX
        elif spec['name'].startswith('tildelong-'):
            name = '~' + 'u' * int(spec['name'].split('-')[1]) + '/x.conf'       # a user name around LOGIN_NAME_MAX
        elif spec['name'] in ('tilde-only', 'tilde-user-only', 'tilde-slash'):
            name = {'tilde-only': '~', 'tilde-user-only': '~root', 'tilde-slash': '~/'}[spec['name']]       # expands to a directory: a reported error, and no byte read beyond the name
        elif spec['name'].startswith('slashdir-'):
            name = 'plain.conf'
            L.append('add_searchpath 0 %s' % hx('.' + '/' * int(spec['name'].split('-')[1])))           # a search directory spelled with trailing slashes
        elif spec['name'].startswith('longdir-'):
            name = 'plain.conf'
            L.append('add_searchpath 0 %s' % hx('d' * int(spec['name'].split('-')[1])))     # a (missing) search directory with a very long name
        else:
            name = {'dir': 'adir', 'devnull': 'devnull', 'dangling': 'dangling', 'loop': 'loop1', 'missing': 'nosuchfile', 'selfinc': 'selfinc', 'nulfile': 'nulfile',
                    'emptyfile': 'emptyfile', 'notdir': 'plain.conf/x'}[spec['name']]
        if spec['entry'] == 'file':
            L.append('parse_file 0 %s' % hx(name))
        else:
            L.append('parse_buf 0 %s' % hx('include("%s")\n' % name))
    # afterwards the context must be fully usable
    L += ['note after', 'stdio', 'dump 0', 'print 0', 'parse_buf 0 %s' % hx('i = 41\n'), 'get 0 int %s 0' % hx('i')]
    return '\n'.join(L)


def judge(spec, events, death):
    v = Verdict()
    name = spec.get('name', 'text')
    tag = re.sub(r'-\d+$', '', name) + ':' + spec.get('entry', 'buf')
    v.nontrivial = True
    if death is not None:
        stage = 'after' if any(e.get('ev') == 'note' and e.get('t') == 'after' for e in events) else 'parse'
        v.bad('%s@%s:%s:%s' % (death['kind'], death['where'], tag, stage), '%s: %s' % (name, death['text'][-600:]))
        return v
    rs = [e for e in events if e.get('ev') == 'r' and e.get('op') in ('parse_buf', 'parse_fp', 'parse_file')]
    if not rs:
        v.bad('harness:short-log', 'no parse result')
        return v
    if rs[0]['rc'] not in (0, 1, -1):
        v.bad('return-code:%s' % tag, 'parse returned %s' % rs[0]['rc'])
    for e in events:
        if e.get('ev') == 'stdout':
            v.bad('stdout:%s' % tag, '%s: %d bytes written to standard output: %r' % (name, e['n'], unhx(e['bytes'])[:40]))
        if e.get('ev') == 'stdin_read':
            v.bad('stdin-read:%s' % tag, '%s: the scanner read from standard input' % name)
    if len(rs) < 2 or rs[-1]['rc'] != 0:
        v.bad('unusable-after:%s' % tag, '%s: the context refuses "i = 41" after the hostile parse' % name)
    else:
        g = [e for e in events if e.get('ev') == 'get']
        if not g or g[-1]['v'] != 41:
            v.bad('unusable-after:%s' % tag, '%s: "i = 41" after the hostile parse has no effect' % name)
    v.notes.setdefault('shape_classes', set()).add(re.sub(r'-\d+$', '', name))
    v.notes['rc_%s' % rs[0]['rc']] = 1
    return v


def text_specs(tier, seed):
    """(c) grammar-derived and mutated texts (for MSan / valgrind)"""
    rng = core.seeded_rng(seed, 'c02')
    n = 3000 if tier == 'quick' else 60000
    for _ in range(n):
        toks = G.gen_text(rng, DECLS, fancy=True, to={'ptr': True})
        text = G.render(toks, rng, 'mixed')
        r = rng.random()
        if r < 0.6 and text:
            b = bytearray(text.encode('latin-1'))
            for _ in range(rng.randint(1, 4)):
                k = rng.randrange(len(b))
                op = rng.random()
                if op < 0.3:
                    del b[k]
                elif op < 0.6:
                    b.insert(k, rng.choice(b'"\'\\{}()=,#/*$+ \n\x00\xff'))
                else:
                    b[k] = rng.randrange(1, 256)
            text = bytes(b).replace(b'\0', b'').decode('latin-1')
        yield {'kind': 'text', 'text': text, 'flags': rng.choice([0, F_COMMENTS, F_IGNORE_UNKNOWN, F_NOCASE | F_COMMENTS])}


def replay(path, bindirs):
    with open(path) as f:
        rp = json.load(f)
    if rp['spec'].get('kind') == 'fuzz-artifact':
        fb = core.build('fuzz')
        tmp = core.mktemp_dir('verif_fuzzrp_')
        ap = os.path.join(tmp, 'artifact')
        with open(ap, 'wb') as f:
            f.write(bytes.fromhex(rp['spec']['hex']))
        env = dict(os.environ, VERIF_FUZZ_DIR=tmp, ASAN_OPTIONS='abort_on_error=1:detect_leaks=1')
        p = subprocess.run([os.path.join(fb, 'fuzz_parse'), ap], env=env, stdout=subprocess.PIPE, stderr=subprocess.STDOUT, cwd=tmp)
        sys.stdout.write(p.stdout.decode('latin-1')[-3000:])
        if p.returncode != 0:
            print('VIOLATION property=C02 replay=%s' % path)
            return 1
        print('no violation on the current tree')
        return 0
    return core.replay('checks.c02', path, bindirs)


def run(tier, seed, bindirs):
    t0 = time.time()
    res = core.Result()
    # (b) shapes on the ASan build, and the stack-sensitive ones on the plain build with the default stack
    sp = shape_specs(tier)
    r1 = core.explore('checks.c02', [s for s in sp if not s.get('heavy')], bindirs, chunk=6, opts={'timeout': 900, 'solo_timeout': 300})
    res.merge(r1)
    deep = [s for s in sp if s.get('heavy') or any(k in s['name'] for k in ('nested', 'open-braces', 'open-parens', 'close-braces'))]
    r2 = core.explore('checks.c02', deep, bindirs, chunk=3, opts={'variant': 'plain', 'timeout': 2400, 'solo_timeout': 1200})
    r2.nontrivial = set()
    res.extra['plain_build_cases'] = r2.evaluations
    res.merge(r2)
    # (c) texts on MSan, sample on valgrind
    ts = list(text_specs(tier, seed))
    r3 = core.explore('checks.c02', ts, bindirs, chunk=100, opts={'variant': 'msan'})
    res.extra['msan_cases'] = r3.evaluations
    res.merge(r3)
    r4 = core.explore('checks.c02', ts[::100] + [s for s in sp if s.get('small')][::7], bindirs, chunk=10,
                      opts={'variant': 'plain', 'wrapper': ['valgrind', '-q', '--error-exitcode=99'], 'timeout': 1800, 'solo_timeout': 600})
    r4.nontrivial = set()
    res.extra['valgrind_cases'] = r4.evaluations
    res.merge(r4)
    # (a) coverage-guided fuzzing
    run_fuzz(bindirs['fuzz'], tier, seed, res)
    return core.finish(PROP, tier, seed, 'exploration', res, RULE, t0, floor=10000,
                       assumptions=['fuzz inputs that name /dev/ or /proc/ paths are skipped by the target (reading the terminal or an endless device is the input\'s own request)',
                                    'FIFOs and endless devices are not used as targets; no permission-based cases (root)', 'a clean sanitizer run is not a proof of memory safety: red-zone tools miss non-adjacent overflows'])
