"""C14 - user callbacks see exactly the parsed items, and their verdict binds (DESIGN.md 7/C14)."""
import json, time, zlib
from vlib import core, schema, model_lang
from vlib import gen as G
from vlib.core import hx, unhx, Verdict, F_LIST, F_MULTI, F_TITLE
from vlib.schema import D

PROP = 'C14'
VARIANTS = ['asan']
RULE = ('random schemas in which random subsets of options carry a value-parsing callback, a validation callback (declared, or registered by path with cfg_set_validate_func, also inside multi '
        'sections) or are function options; grammar-derived texts with lists, +=, nested sections; the fault-free run must produce exactly the invocation trace of the reference interpreter '
        '(one parse callback per value with the decoded text, in order; stored value = callback product; one function call with the decoded arguments; a validation call after every stored value '
        'showing that value, before any later item; additional validation calls tolerated). Then for EVERY k the k-th callback invocation returns failure: the parse must fail and the tree must '
        'equal the interpreter state at that point. Pre-set validators: veto leaves the value, rewrite stores the rewritten value. non-trivial: >= 2 invocations or a failing one; distinct = case hash')

MAXK = 30


def assign_callbacks(rng, decls, regs, path=''):
    for d in decls:
        p = path + d.name
        if d.typ == 'sec':
            if rng.random() < 0.3:
                d.cbs = 'v'
            elif rng.random() < 0.2 and not path:
                regs.append(p)
            if not (d.flags & core.F_KEYSTRVAL):
                assign_callbacks(rng, d.sub or [], regs, p + '|')
        elif d.typ in ('int', 'float', 'bool', 'str'):
            if d.is_list and d.default:
                # list defaults are parsed through the callbacks when a section is instantiated, and a callback that
                # refuses the declared default makes the library abort() (a programming error): keep callbacks off them
                continue
            c = ''
            if rng.random() < 0.4:
                c += 'p'
            r = rng.random()
            if r < 0.35:
                c += 'v'
            elif r < 0.55:
                regs.append(p)
            if d.typ in ('int', 'float', 'str') and (not d.is_list or d.typ != 'str') and rng.random() < 0.3:
                c += 'w'
            d.cbs = c
        elif d.typ == 'func':
            d.cbs = 'F'


def apply_regs(decls, regs):
    """decls as the model should see them: registered validators become 'v'"""
    for r in regs:
        cur = decls
        parts = r.split('|')
        for k, nm in enumerate(parts):
            d = next(x for x in cur if x.name == nm)
            if k == len(parts) - 1:
                if 'v' not in (d.cbs or ''):
                    d.cbs = (d.cbs or '') + 'v'
            else:
                cur = d.sub
    return decls


def gen(tier, seed):
    yield from late_specs()
    yield from nest_specs()
    yield from empty_token_specs()
    rng = core.seeded_rng(seed, 'c14')
    n = 12000 if tier == 'quick' else 200000
    made = 0
    while made < n:
        so = G.SchemaOpts(funcs=True, keystrval=False, nodefault=True, depth=2, maxopts=4, deprecated=rng.random() < 0.3)      # (deprecated / dropped options are validated like any other)
        decls = G.gen_schema(rng, so)
        regs = []
        assign_callbacks(rng, decls, regs)
        toks = G.gen_text(rng, decls, fancy=False)
        if rng.random() < 0.2 and toks:
            i = rng.randrange(len(toks))
            del toks[i]
        if not toks or len(toks) > 60:
            continue
        spec = {'decls': [d.to_json() for d in decls], 'regs': regs, 'toks': toks}
        mdecls = apply_regs([D.from_json(j) for j in spec['decls']], regs)
        verdict, pos, it = model_lang.interpret(schema.new_root(mdecls), toks, 0)
        if verdict == 'unspec':
            continue
        spec['n'] = min(len(it.trace) + 2, MAXK)
        made += 1
        yield spec


LATE_DECLS = [D('i', 'int', default=0), D('sec', 'sec', F_MULTI, sub=[D('x', 'int', default=1), D('xl', 'int', core.F_LIST, default=None)]),
              D('tsec', 'sec', F_MULTI | F_TITLE, sub=[D('y', 'int', default=1), D('inner', 'sec', F_MULTI, sub=[D('z', 'int', default=1)])]),
              D('one', 'sec', 0, sub=[D('w', 'int', default=1)])]
LATE_FIRST = ['', 'sec { x = 1 }\n', 'tsec a { y = 1 }\n', 'sec { x = 1 }\nsec { x = 2 }\ntsec a { y = 1 inner { z = 1 } }\none { w = 2 }\n']
LATE_REGS = ['sec|x', 'sec|xl', 'tsec|y', 'tsec|inner|z', 'one|w', 'i']
LATE_SECOND = 'i = 5\nsec { x = 7 xl = {1, 2} }\ntsec b { y = 8 inner { z = 9 } }\ntsec a { y = 10 }\none { w = 11 }\n'
# invocations the second text must produce once the validators are registered by path (new instances and re-opened ones alike)
LATE_EXPECT = [('i', [5]), ('x', [7]), ('xl', [1]), ('xl', [1, 2]), ('y', [8]), ('z', [9]), ('y', [10]), ('w', [11])]


def late_specs():
    """validators registered by schema path AFTER instances of the sections exist"""
    for first in range(len(LATE_FIRST)):
        yield {'late': first, 'k': 0}
        yield {'late': first, 'k': 0, 'unreg': True}
        for k in range(1, 12):
            yield {'late': first, 'k': k}


# ---- a function callback that re-enters the library (parses a text with a function call of its own into another context)

NEST_DECLS = [D('include', 'func', cbs='I'), D('fn', 'func', cbs='F'), D('i', 'int', default=0), D('sl', 'str', F_LIST, default=None), D('sec', 'sec', F_MULTI | F_TITLE, sub=[D('fn', 'func', cbs='F'), D('x', 'int', default=0)])]
NEST_TEXTS = ['i = 1\ninclude("nestinc.conf")\ni = 3\nsl += {after}\n', 'fn(a)\ni = 1\n', 'i = 1\nfn(one, "two words", three)\nsl = {x, y}\nfn()\ni = 2\n', 'sec t { fn(p, q) x = 3 }\nfn(r)\nsec u { x = 4 fn(%s) }\ni = 5\n' % ', '.join('a%d' % k for k in range(20))]


def empty_token_specs():
    """a value-parsing callback gets whatever the token says - also the empty string"""
    decls = [D('pi', 'int', cbs='p'), D('pf', 'float', cbs='p'), D('pb', 'bool', cbs='p'), D('ps', 'str', cbs='p'), D('pl', 'int', F_LIST, cbs='p'), D('pp', 'ptr', cbs='pf'),
             D('fn', 'func', cbs='F'), D('sec', 'sec', F_MULTI | F_TITLE, sub=[D('qi', 'int', cbs='pv'), D('ql', 'float', F_LIST, cbs='p')])]
    texts = ['pi = "" pf = "" pb = "" ps = "" pp = ""', "pl = { \"\" , '' , 7 } fn ( \"\" , '' ) pl += \"\"", 'sec t { qi = "" ql = { "" } } sec u { ql = "" qi = \'\' }']
    for t in texts:
        toks = []
        for w in t.split():
            if w in ('=', '+=', '{', '}', '(', ')', ','):
                toks.append([w, w, None])
            elif w in ('""', "''"):
                toks.append(['val', w, ''])
            else:
                toks.append(['name' if not toks or toks[-1][0] not in ('=', '+=', ',', '{', '(') or w in ('fn',) else 'val', w, w])
        # (kinds only matter for punctuation; every other token is a string token for the grammar)
        spec = {'decls': [d.to_json() for d in decls], 'toks': toks, 'regs': [], 'strict': True}
        verdict, pos, it = model_lang.interpret(schema.new_root([D.from_json(j) for j in spec['decls']]), toks, 0)
        assert verdict == 'accept', (t, verdict, pos)
        spec['n'] = min(len(it.trace) + 2, MAXK)
        yield spec


def nest_specs():
    for k in range(len(NEST_TEXTS)):
        yield {'nest': k}


def nest_script(spec):
    lines, sid = schema.emit_schema(NEST_DECLS)
    return '\n'.join(list(lines) + ['mkfile %s %s' % (hx('nestinc.conf'), hx('sl = {one}\nfn(from, include)\nsl += {two}\ni = 2\n')), 'init 0 %d 0' % sid, 'nestmode 1', 'parse_buf 0 %s' % hx(NEST_TEXTS[spec['nest']]), 'nestmode 0', 'dump 0', 'init 1 %d 0' % sid,
                                  'parse_buf 1 %s' % hx(NEST_TEXTS[spec['nest']]), 'dump 1'])


def nest_judge(spec, events, death):
    v = Verdict()
    v.nontrivial = True
    v.notes['reentrant_callback_cases'] = 1
    if death is not None:
        v.bad('crash:%s@%s:re-entrant-callback' % (death['kind'], death['where']), death['text'][-500:])
        return v
    r = [e for e in events if e.get('ev') == 'r' and e.get('op') == 'parse_buf']
    d = [e for e in events if e.get('ev') == 'dump']
    if len(r) < 2 or len(d) < 2:
        v.bad('harness:short-log', 'events missing')
        return v
    cut = events.index(r[0])
    a1 = [[unhx(x) for x in e['args']] for e in events[:cut] if e.get('ev') == 'cb' and e.get('k') == 'func']
    a2 = [[unhx(x) for x in e['args']] for e in events[cut:] if e.get('ev') == 'cb' and e.get('k') == 'func']
    nested = [e for e in events[:cut] if e.get('ev') == 'nested']
    if any(e['rc'] != 0 or e['n'] != 2 for e in nested) or len(nested) != len(a2):
        v.bad('re-entrant-callback:inner-parse', 'the text parsed from inside a function callback: %r (one per outer call, each must be accepted completely)' % nested[:3])
    elif r[0]['rc'] != r[1]['rc'] or a1 != a2:
        v.bad('re-entrant-callback:arguments', 'function callbacks that parse another text before reading their arguments saw %r (rc=%s); without the inner parse they see %r (rc=%s)' % (a1[:4], r[0]['rc'], a2[:4], r[1]['rc']))
    elif json.dumps(schema.dump_values_only(d[0]['tree']), sort_keys=True) != json.dumps(schema.dump_values_only(d[1]['tree']), sort_keys=True):
        v.bad('re-entrant-callback:values', 'the outer parse ends with other values when its function callbacks re-enter the library')
    return v


def late_script(spec):
    lines, sid = schema.emit_schema(LATE_DECLS)
    L = list(lines) + ['init 0 %d 0' % sid, 'parse_buf 0 %s' % hx(LATE_FIRST[spec['late']])]
    L += ['set_validate_func 0 %s 1' % hx(r) for r in LATE_REGS]
    if spec.get('unreg'):
        L += ['set_validate_func 0 %s 1' % hx(r) for r in LATE_REGS]       # registering twice is harmless ...
        L += ['set_validate_func 0 %s 0' % hx(r) for r in LATE_REGS]       # ... and NULL removes the callback again
    L += ['note second', 'failat %d' % spec['k'], 'parse_buf 0 %s' % hx(LATE_SECOND), 'failat 0', 'dump 0']
    return '\n'.join(L)


def late_judge(spec, events, death):
    v = Verdict()
    v.nontrivial = True
    if death is not None:
        v.bad('crash:%s@%s:late-registration' % (death['kind'], death['where']), death['text'][-400:])
        return v
    i0 = next((i for i, e in enumerate(events) if e.get('ev') == 'note'), None)
    evs = events[i0:] if i0 is not None else []
    r = [e for e in evs if e.get('ev') == 'r' and e.get('op') == 'parse_buf']
    tr = [t for t in lib_trace(evs) if t[0] == 'valid']
    v.notes['late_registration_cases'] = 1
    # required subsequence (additional validations of an unchanged option are tolerated)
    need = [(n, vals) for n, vals in LATE_EXPECT]
    if spec.get('unreg'):
        if tr:
            v.bad('late-registration:still-invoked-after-removal', 'validators removed by path (NULL) are still invoked: %r' % tr[:3])
        if not r or r[0]['rc'] != 0:
            v.bad('late-registration:rejected', 'second text rejected')
        return v
    if spec['k'] == 0:
        pos = 0
        for t in tr:
            if pos < len(need) and t[1] == need[pos][0] and t[2] == need[pos][1]:
                pos += 1
        if not r or r[0]['rc'] != 0:
            v.bad('late-registration:rejected', 'second text rejected')
        elif pos < len(need):
            v.bad('late-registration:not-invoked:%s' % need[pos][0], 'validator registered by path for %r was not invoked for value %r of the text parsed afterwards (first text %r); trace %r' % (
                need[pos][0], need[pos][1], LATE_FIRST[spec['late']], tr[:10]))
    else:
        if spec['k'] <= len(tr) + 0 and r and r[0]['rc'] == 0 and len(tr) >= spec['k']:
            v.bad('late-registration:verdict-ignored', 'invocation %d returned failure but the parse succeeded' % spec['k'])
        if spec['k'] <= len(need) and len(tr) < spec['k']:
            v.bad('late-registration:not-invoked', 'fewer invocations (%d) than required before failing invocation %d' % (len(tr), spec['k']))
    return v


def script(spec):
    if 'nest' in spec:
        return nest_script(spec)
    if 'late' in spec:
        return late_script(spec)
    decls = [D.from_json(j) for j in spec['decls']]
    lines, sid = schema.emit_schema(decls)
    text = ' '.join(t[1] for t in spec['toks']) + '\n'
    L = list(lines)
    for k in range(0, spec['n'] + 1):
        L.append('note run%d' % k)
        L.append('init 0 %d 0' % sid)
        for r in spec['regs']:
            L.append('set_validate_func 0 %s 1' % hx(r))
        # registrations through paths that do not resolve register nothing (and must not disturb anything)
        scal = next((d.name for d in decls if d.typ in ('int', 'str')), 'nosuch2')
        for bad in ('nosuch', 'nosuch|x', scal + '|x', '|', '', scal + '|', 'nosuch|' + scal):
            L.append('set_validate_func 0 %s 1' % hx(bad))
            L.append('set_validate_func2 0 %s 1' % hx(bad))
        L.append('failat %d' % k)
        L.append('parse_buf 0 %s' % hx(text))
        L.append('failat 0')
        L.append('dump 0')
        L.append('free 0')
    # pre-set validators on by-name setters
    wopts = [d for d in decls if 'w' in (d.cbs or '')]
    for d in wopts[:3]:
        L.append('note v2')
        L.append('init 0 %d 0' % sid)
        if d.typ == 'str':
            # strings cannot be rewritten (the callback gets the string itself); accept, veto, and veto of a NULL value
            L += ['v2mode 0', 'setstr 0 %s %s' % (hx(d.name), hx('accepted')), 'get 0 str %s 0' % hx(d.name),
                  'v2mode 1', 'setstr 0 %s %s' % (hx(d.name), hx('vetoed')), 'get 0 str %s 0' % hx(d.name),
                  'v2mode 1', 'setstr 0 %s -' % hx(d.name), 'get 0 str %s 0' % hx(d.name), 'v2mode 0', 'free 0']
            continue
        val = '5' if d.typ == 'int' else '0x1p2'
        L += ['v2mode 0', 'set%s 0 %s %s' % (d.typ, hx(d.name), val), 'get 0 %s %s 0' % (d.typ, hx(d.name)),
              'v2mode 2', 'set%s 0 %s %s' % (d.typ, hx(d.name), val), 'get 0 %s %s 0' % (d.typ, hx(d.name)),
              'v2mode 1', 'set%s 0 %s %s' % (d.typ, hx(d.name), '9' if d.typ == 'int' else '0x1p5'), 'get 0 %s %s 0' % (d.typ, hx(d.name))]
        if d.is_list:
            # a vetoed append (index = current size) must not grow the list
            n = max(1, len(d.default or []))
            L += ['get 0 size %s 0' % hx(d.name), 'v2mode 1', 'set%s 0 %s %s %d' % (d.typ, hx(d.name), '9' if d.typ == 'int' else '0x1p5', n), 'get 0 size %s 0' % hx(d.name)]
        L += ['v2mode 0', 'free 0']
    return '\n'.join(L)


def lib_trace(evs):
    out = []
    # only what the parse of the text invokes: callbacks run for declared defaults during cfg_init are not the subject
    start = max([i for i, e in enumerate(evs) if e.get('ev') == 'r' and e.get('op') == 'init'] or [-1])
    for e in evs[start + 1:]:
        if e.get('ev') != 'cb':
            continue
        if e['k'] == 'parse':
            out.append(('parse', unhx(e['opt']), unhx(e['val'])))
        elif e['k'] == 'valid':
            vals = [norm(v) for v in e['snap']['v']]
            out.append(('valid', unhx(e['opt']), vals))
        elif e['k'] == 'func':
            out.append(('func', unhx(e['opt']), [unhx(a) for a in e['args']]))
    return out


def norm(v):
    if isinstance(v, str) and v.startswith(('0x', '-0x')):
        try:
            return float.fromhex(v)
        except ValueError:
            pass
    if isinstance(v, str) and v != 'sec':
        try:
            return unhx(v)
        except ValueError:
            return v
    return v


def model_event_key(ev):
    k, name, arg = ev
    if k in ('valid', 'valid-close'):
        return ('valid', name, [float(x) if isinstance(x, float) else x for x in arg])
    if k == 'valid-sec':
        return ('valid', name, arg)
    return ev


def same(mev, lev):
    mk = model_event_key(mev)
    if mk[0] != lev[0] or mk[1] != lev[1]:
        return False
    if mev[0] == 'valid-sec':
        return len(lev[2]) == mev[2]           # section validation: the snapshot lists one entry per instance
    if mk[0] == 'valid':
        a, b = mk[2], lev[2]
        if len(a) != len(b):
            return False
        for x, y in zip(a, b):
            if isinstance(x, float) or isinstance(y, float):
                try:
                    if float(x) != float(y):
                        return False
                except (TypeError, ValueError):
                    return False
            elif x != y:
                return False
        return True
    return mk[2] == lev[2]


def align(mtrace, ltrace):
    """-> (mapping lib index -> model index or None, error string or None)"""
    mapping = []
    mi = 0
    last_valid = {}
    for li, lev in enumerate(ltrace):
        # skip optional model events that the library did not produce
        j = mi
        while j < len(mtrace) and not same(mtrace[j], lev) and mtrace[j][0] in ('valid-close',):
            j += 1
        if j < len(mtrace) and same(mtrace[j], lev):
            mapping.append(j)
            mi = j + 1
            if lev[0] == 'valid':
                last_valid[lev[1]] = lev[2]
            continue
        if lev[0] == 'valid' and last_valid.get(lev[1]) == lev[2]:
            mapping.append(None)        # an additional validation of an unchanged option: tolerated
            continue
        exp = mtrace[mi] if mi < len(mtrace) else None
        return mapping, 'invocation %d is %r, the reference interpreter expects %r' % (li + 1, lev, exp)
    rest = [m for m in mtrace[mi:] if m[0] != 'valid-close']
    if rest:
        return mapping, 'missing invocations: the reference interpreter expects %r next' % (rest[0],)
    return mapping, None


def judge(spec, events, death):
    if 'nest' in spec:
        return nest_judge(spec, events, death)
    if 'late' in spec:
        return late_judge(spec, events, death)
    v = Verdict()
    decls = apply_regs([D.from_json(j) for j in spec['decls']], spec['regs'])
    text = ' '.join(t[1] for t in spec['toks'])
    if death is not None:
        v.bad('crash:%s@%s' % (death['kind'], death['where']), 'text %r: %s' % (text[:200], death['text'][-400:]))
        return v
    groups = {}
    v2groups = []
    cur = None
    for e in events:
        if e.get('ev') == 'note':
            cur = e['t']
            if cur == 'v2':
                v2groups.append([])
                cur = v2groups[-1]
            else:
                groups[cur] = []
                cur = groups[cur]
        elif cur is not None:
            cur.append(e)
    # fault-free run
    g0 = groups.get('run0')
    if g0 is None:
        v.bad('harness:short-log', 'run0 missing')
        return v
    model = schema.new_root(decls)
    verdict, pos, it = model_lang.interpret(model, spec['toks'], 0)
    r0 = [e for e in g0 if e.get('ev') == 'r' and e.get('op') == 'parse_buf'][0]
    d0 = [e for e in g0 if e.get('ev') == 'dump'][0]
    lt = lib_trace(g0)
    if (verdict == 'accept') != (r0['rc'] == 0) and spec.get('strict'):
        # hand-built texts whose every value goes to a parse callback: nothing but a callback can refuse them
        v.bad('callback-not-consulted', 'text %r: every value here belongs to an option with a value-parsing callback that accepts anything, yet the parse returned %s after %d of %d invocations' % (
            text[:300], r0['rc'], len(lt), len(it.trace)))
        return v
    if (verdict == 'accept') != (r0['rc'] == 0):
        v.skipped = True            # accept/reject disagreement without callbacks involved is C01's business
        v.notes['accept_disagreement'] = 1
        return v
    mapping, err = align(it.trace, lt)
    v.notes['invocations'] = len(lt)
    v.nontrivial = len(lt) >= 2
    if err:
        kind = 'missing' if err.startswith('missing') else 'mismatch'
        what = (lt[len(mapping)][0] if len(mapping) < len(lt) else (it.trace[-1][0] if it.trace else '?'))
        v.bad('trace:%s:%s' % (kind, what), 'text %r: %s' % (text[:300], err))
        return v
    if verdict == 'accept':
        diffs = schema.diff_sec(model, d0['tree'], check_mod=False)
        if diffs:
            v.bad('stored-value', 'text %r: stored values differ from what the callbacks produced: %s' % (text[:300], diffs[:3]))
            return v
    # failing runs
    for k in range(1, spec['n'] + 1):
        g = groups.get('run%d' % k)
        if g is None:
            break
        r = [e for e in g if e.get('ev') == 'r' and e.get('op') == 'parse_buf'][0]
        d = [e for e in g if e.get('ev') == 'dump'][0]
        ltk = lib_trace(g)
        if k > len(lt):
            # no k-th invocation exists: the run must equal the fault-free one
            if r['rc'] != r0['rc']:
                v.bad('failat-beyond-trace', 'failat %d beyond the %d invocations changes the result' % (k, len(lt)))
            continue
        v.notes['failing_runs'] = v.notes.get('failing_runs', 0) + 1
        if r['rc'] != 1:
            v.bad('verdict-ignored:%s' % lt[k - 1][0], 'text %r: invocation %d (%r) returned failure but the parse returned %s' % (text[:300], k, lt[k - 1], r['rc']))
            continue
        if ltk[:k] != lt[:k] or len(ltk) != k:
            v.bad('continues-after-failure:%s' % lt[k - 1][0], 'text %r: after invocation %d (%r) failed, further callbacks ran: %r' % (text[:300], k, lt[k - 1], ltk[k:k + 2]))
            continue
        mk = mapping[k - 1]
        if mk is None:
            continue
        m2 = schema.new_root(decls)
        verdict2, pos2, it2 = model_lang.interpret(m2, spec['toks'], 0, failat=mk + 1)
        if verdict2 != 'reject':
            continue
        diffs = schema.diff_sec(m2, d['tree'], check_mod=False)
        if diffs:
            v.bad('state-after-failure:%s' % lt[k - 1][0], 'text %r: invocation %d (%r) fails; tree differs from the interpreter state at that point: %s' % (text[:300], k, lt[k - 1], diffs[:3]))
    # pre-set validators
    wopts = [d for d in decls if 'w' in (d.cbs or '')][:3]
    for d, g in zip(wopts, v2groups):
        gets = [e for e in g if e.get('ev') == 'get']
        rets = [e for e in g if e.get('ev') == 'r' and e.get('op', '').startswith('set')]
        cbs = [e for e in g if e.get('ev') == 'cb' and e.get('k') == 'valid2']
        if len(gets) < 3 or len(rets) < 3:
            continue
        if d.typ == 'str':
            sv = [unhx(x['v']) for x in gets]
            v.notes['preset_validator_checks'] = v.notes.get('preset_validator_checks', 0) + 1
            if len(cbs) != 3:
                v.bad('validcb2:not-called:str', 'pre-set validator of string option %s called %d times for 3 setter calls (one with a NULL value)' % (d.name, len(cbs)))
            elif rets[0]['rc'] != 0 or sv[0] != 'accepted':
                v.bad('validcb2:accept:str', 'accepting validator: rc=%s value=%r' % (rets[0]['rc'], sv[0]))
            elif rets[1]['rc'] == 0 or sv[1] != 'accepted' or rets[2]['rc'] == 0 or sv[2] != 'accepted':
                v.bad('validcb2:veto:str', 'vetoing validator on a string: rc=%s/%s values %r/%r (must stay %r)' % (rets[1]['rc'], rets[2]['rc'], sv[1], sv[2], 'accepted'))
            continue
        gv = [float.fromhex(x['v']) if d.typ == 'float' else x['v'] for x in gets[:3]]
        plain, rew = (5, 4242) if d.typ == 'int' else (4.0, 42.5)
        v.notes['preset_validator_checks'] = v.notes.get('preset_validator_checks', 0) + 1
        if len(cbs) != (4 if d.is_list else 3):
            v.bad('validcb2:not-called', 'pre-set validator of %s called %d times for 3 setter calls' % (d.name, len(cbs)))
        elif rets[0]['rc'] != 0 or gv[0] != plain:
            v.bad('validcb2:accept', 'accepting validator: setter rc=%s value=%s' % (rets[0]['rc'], gv[0]))
        elif rets[1]['rc'] != 0 or gv[1] != rew:
            v.bad('validcb2:rewrite', 'rewriting validator: stored %s, expected %s' % (gv[1], rew))
        elif rets[2]['rc'] == 0 or gv[2] != rew:
            v.bad('validcb2:veto', 'vetoing validator: rc=%s value=%s (should stay %s)' % (rets[2]['rc'], gv[2], rew))
        elif d.is_list and len(gets) >= 5 and len(rets) >= 4 and (rets[3]['rc'] == 0 or gets[4]['v'] != gets[3]['v']):
            v.bad('validcb2:veto:append', 'vetoed append to list %s: rc=%s, size %s -> %s' % (d.name, rets[3]['rc'], gets[3]['v'], gets[4]['v']))
    return v


def run(tier, seed, bindirs):
    t0 = time.time()
    res = core.explore('checks.c14', gen(tier, seed), bindirs, chunk=30)
    return core.finish(PROP, tier, seed, 'fault_enumeration', res, RULE, t0, floor=300,
                       assumptions=['additional validation calls that show an unchanged option (e.g. when a braced list is closed) are tolerated, as the statement only demands the call after each stored value',
                                    'texts on which model and library disagree about acceptance without any callback involved are left to C01'])
