"""C18 - running out of memory yields an error return, not corruption (DESIGN.md 7/C18)."""
import json, os, re, time
from vlib import core, schema
from vlib.core import hx, unhx, Verdict, F_LIST, F_MULTI, F_TITLE, F_COMMENTS, F_KEYSTRVAL, F_NODEFAULT, F_NO_TITLE_DUPES
from vlib.schema import D

PROP = 'C18'
VARIANTS = ['asan']
ISOLATE = True

SUB = [D('y', 'int', default=0), D('ys', 'str', default='k'), D('yl', 'str', F_LIST, default=['m', 'n'])]
SEC = [D('x', 'int', default=9), D('xs', 'str', default='dx'), D('xl', 'int', F_LIST, default=[3, 4]), D('sub', 'sec', F_MULTI, sub=SUB),
       D('inner', 'sec', 0, sub=[D('q', 'str', default='qq')]), D('include', 'func', cbs='I')]
DECLS = [D('i', 'int', default=1), D('f', 'float', default=0.5), D('b', 'bool', default=1), D('s', 'str', default='dflt'), D('il', 'int', F_LIST, default=[1, 2]),
         D('sl', 'str', F_LIST, default=['a', 'b']), D('fl', 'float', F_LIST, default=[1.5]), D('p', 'ptr', cbs='pf'), D('fn', 'func', cbs='F'),
         D('include', 'func', cbs='I'), D('sec', 'sec', F_MULTI | F_TITLE, sub=SEC), D('uniq', 'sec', F_MULTI | F_TITLE | F_NO_TITLE_DUPES, sub=[D('u', 'int', default=0)]),
         D('one', 'sec', 0, sub=[D('z', 'int', default=1), D('zs', 'str', default='q'), D('deep', 'sec', 0, sub=[D('d', 'str', F_LIST, default=['x'])])]),
         D('kv', 'sec', F_KEYSTRVAL, sub=[]), D('nd', 'sec', F_NODEFAULT, sub=[D('w', 'str', default='w')]), D('sv', 'str', default='v', cbs='w'),
         # a hand-written declaration carrying a string default, a parsed default and a comment at once
         D('both', 'str', default='string default', dparsed='"parsed default"', comment='declared comment'),
         D('ss', 'str', simple=True), D('si', 'int', simple=True)]       # "simple" options: the value lives in the application's variable
NAMES = [d.name for d in DECLS]
TEXT1 = ('i = 5\ns = "str"\nil = {1, 2, 3}\nsl += {"x"}\nfl = 2.5\np = obj\nfn(one, "two")\nsec a { x = 1 xs = "s" xl += {5} sub { y = 1 yl = {} } sub { } inner { q = "w" } }\n'
         'sec b { }\nsec a { x = 2 }\nuniq t { u = 1 }\none { z = 2 deep { d += {"y"} } }\nkv { alpha = "1" beta = two alpha = "3" }\nnd { w = "set" }\nnd { }\n')
TEXT2 = '# note one\ni = 6\n/* note two */\ns = "annotated"\nil = {7}\n// list\nsl = first\ninclude("inc1.conf")\nsec t { include("secinc.conf") }\n'
FILES = {'sec1.conf': 'one { z = 2 }\nsec a { x = 1 }\n', 'sec2.conf': 'one { zs = "two" deep { } }\nsec a { }\n', 'inc1.conf': 'i = 2\ninclude("inc2.conf")\n', 'inc2.conf': 'sec deep { xs = "two" }\n', 'secinc.conf': 'xs = "inner"\nxl += {9}\n'}

RULE = ('%d workloads that together call every public entry point (cfg_init with parsed defaults and nested sections; parse with lists / sections / key=value / functions / includes / annotations; '
        'every setter family; cfg_setmulti; cfg_setopt; cfg_addtsec; cfg_rm*sec; annotations; search path and tilde; by-path getters with quoted titles; print; callback registration by path); for each '
        'workload the fault-free run records the ordered list of N allocation requests issued by confuse.c, then for EVERY k in 1..N one process runs with exactly the k-th request failing. '
        'Verdict per run: no abort / signal / sanitizer report, the remaining calls complete, the context is dumped, printed and freed, and the library-allocation live table is empty at the end. '
        'every (workload, k) is non-trivial; exhaustive over k')


import pwd as _pwd
HOME_UP = '/..' * _pwd.getpwuid(os.geteuid()).pw_dir.rstrip('/').count('/')
USER0 = _pwd.getpwuid(os.geteuid()).pw_name
USER0_UP = HOME_UP


def optloc(name):
    return '0:%d' % NAMES.index(name)


def workloads(sid):
    init = ['init 0 %d %d' % (sid, F_COMMENTS)]
    W = {}
    W['init'] = ['@OOM', 'init 0 %d 0' % sid]
    W['init+comments'] = ['@OOM', 'init 0 %d %d' % (sid, F_COMMENTS), 'init 1 %d 0' % sid]
    W['parse'] = init + ['@OOM', 'parse_buf 0 %s' % hx(TEXT1)]
    W['parse-again'] = init + ['parse_buf 0 %s' % hx(TEXT1), '@OOM', 'parse_buf 0 %s' % hx(TEXT1)]
    W['parse-include'] = init + ['@OOM', 'parse_buf 0 %s' % hx(TEXT2)]
    W['parse-file'] = init + ['@OOM', 'parse_file 0 %s' % hx('inc1.conf'), 'parse_fp 0 %s' % hx('i = 3\n')]
    W['parse-file-sp'] = init + ['@OOM', 'add_searchpath 0 %s' % hx('spdir'), 'add_searchpath 0 %s' % hx('~/nosuch'), 'searchpath 0 %s' % hx('inc1.conf'),
                                 'parse_file 0 %s' % hx('inc1.conf'), 'tilde %s' % hx('~/x'), 'tilde %s' % hx('~root/y'), 'tilde %s' % hx('plain')]
    # a directory that is only reachable through its tilde form: what was stored is visible in the later look-ups
    W['tilde-searchpath'] = init + ['@OOM', 'add_searchpath 0 %s' % hx('~' + HOME_UP + '@CWD@/spdir2'), 'searchpath 0 %s' % hx('only2.conf'), 'parse_file 0 %s' % hx('only2.conf'),
                                    'add_searchpath 0 %s' % hx('~%s%s@CWD@/spdir2' % (USER0, USER0_UP)), 'searchpath 0 %s' % hx('only2.conf'), 'tilde %s' % hx('~%s/z' % USER0)]
    W['setters'] = init + ['@OOM', 'setint 0 %s 7' % hx('i'), 'setstr 0 %s %s' % (hx('s'), hx('new')), 'setstr 0 %s %s 2' % (hx('sl'), hx('app')), 'setint 0 %s 3 2' % hx('il'),
                           'setfloat 0 %s 0x1p1' % hx('f'), 'setbool 0 %s 0' % hx('b'), 'setstr 0 %s %s' % (hx('one|zs'), hx('by path')), 'setstr 0 %s %s' % (hx('sv'), hx('validated')),
                           'opt_setstr %s %s 0' % (optloc('s'), hx('direct')), 'setstr 0 %s %s' % (hx('ss'), hx('simple one')), 'setstr 0 %s %s' % (hx('ss'), hx('simple two')),
                           'setint 0 %s 5' % hx('si'), 'parse_buf 0 %s' % hx('ss = "from text"\nsi = 6\n')]
    W['lists'] = init + ['@OOM', 'setlist 0 %s int 3 4 5 6' % hx('il'), 'addlist 0 %s str 2 %s %s' % (hx('sl'), hx('m'), hx('n')), 'setlist 0 %s str 1 %s' % (hx('sl'), hx('only')),
                         'addlist 0 %s float 1 0x1p0' % hx('fl'), 'setlist 0 %s int 0' % hx('il')]
    W['setmulti'] = init + ['@OOM', 'setmulti 0 %s 3 %s %s %s' % (hx('il'), hx('4'), hx('5'), hx('6')), 'setmulti 0 %s 2 %s %s' % (hx('sl'), hx('p'), hx('q')),
                            'setmulti 0 %s 2 %s %s' % (hx('il'), hx('7'), hx('zz')), 'setmulti 0 %s 1 %s' % (hx('s'), hx('one')), 'setmulti 0 %s 1 %s' % (hx('p'), hx('obj'))]
    W['setopt'] = init + ['@OOM', 'setopt 0 %s %s' % (optloc('i'), hx('12')), 'setopt 0 %s %s' % (optloc('s'), hx('text')), 'setopt 0 %s %s' % (optloc('sl'), hx('elem')),
                          'setopt 0 %s %s' % (optloc('p'), hx('obj')), 'setopt 0 %s %s' % (optloc('sec'), hx('viaopt')), 'setopt 0 %s %s' % (optloc('i'), hx('bad'))]
    W['addtsec'] = init + ['@OOM', 'addtsec 0 %s %s' % (hx('sec'), hx('n1')), 'addtsec 0 %s %s' % (hx('sec'), hx('n2')), 'setstr 0 %s %s' % (hx('sec=n1|xs'), hx('v')),
                           'addtsec 0 %s %s' % (hx('sec'), hx('n1')), 'addtsec 0 %s %s' % (hx('uniq'), hx('u1'))]
    W['rmsec'] = init + ['parse_buf 0 %s' % hx(TEXT1), '@OOM', 'rmnsec 0 %s 0' % hx('sec'), 'rmtsec 0 %s %s' % (hx('sec'), hx('b')), 'rmsec 0 %s' % hx("uniq='t'"),
                         'rmsec 0 %s' % hx('one|deep'), 'rmsec 0 %s' % hx('sec=nope'), 'addtsec 0 %s %s' % (hx('sec'), hx('again'))]
    W['comments'] = init + ['@OOM', 'setcomment 0 %s %s' % (hx('i'), hx('first')), 'setcomment 0 %s %s' % (hx('i'), hx('second')), 'opt_setcomment %s %s' % (optloc('sl'), hx('list note')),
                            'setmulti 0 %s 2 %s %s' % (hx('sl'), hx('p'), hx('q')), 'setcomment 0 %s %s' % (hx('one|z'), hx('nested'))]
    W['paths'] = init + ['parse_buf 0 %s' % hx(TEXT1), '@OOM', 'getopt 0 %s' % hx("sec='a'|sub=1|ys"), 'getsec 0 %s' % hx('sec=b'), 'get 0 str %s 0' % hx("sec='a'|inner|q"),
                         'get 0 size %s 0' % hx('sec=a|xl'), 'getsec 0 %s' % hx("uniq='t'"), 'gettsec 0 %s %s' % (hx('sec'), hx('b')), 'getopt 0 %s' % hx("sec='bad"),
                         'set_validate_func 0 %s 1' % hx('one|deep|d'), 'set_validate_func2 0 %s 1' % hx('one|zs'), 'set_print_func 0 %s 1' % hx('sec=a|x')]
    W['print'] = init + ['parse_buf 0 %s' % hx(TEXT1), 'setcomment 0 %s %s' % (hx('i'), hx('note')), 'setstr 0 %s %s' % (hx('s'), hx('long "value" ' * 40)),
                         'setstr 0 %s %s 0' % (hx('sl'), hx('x\\y$z' * 60)), 'setcomment 0 %s %s' % (hx('f'), hx('a long annotation ' * 30)), 'setcomment 0 %s %s' % (hx('b'), hx('two lines and\nan early end */ of comment')),
                         'setcomment 0 %s %s' % (hx('il'), hx('one line */ with an end marker')), '@OOM', 'print 0', 'print_indent 0 2', 'opt_print %s' % optloc('sl'), 'init 1 %d %d' % (sid, F_COMMENTS),
                         'print_parse 0 1']
    # function calls with more arguments than any fixed-size vector would hold
    W['parse-many-args'] = init + ['@OOM', 'parse_buf 0 %s' % hx('fn(%s)\ni = 2\nfn(%s)\n' % (', '.join('a%d' % k for k in range(20)), ', '.join('b%d' % k for k in range(70))))]
    # a plain section opened from one file and again from another (its source name changes)
    W['reopen-other-file'] = init + ['parse_file 0 %s' % hx('sec1.conf'), '@OOM', 'parse_file 0 %s' % hx('sec2.conf'), 'parse_buf 0 %s' % hx('one { deep { d = {y} } }\n'),
                                     'parse_file 0 %s' % hx('sec1.conf')]
    W['reparse-titles'] = init + ['parse_buf 0 %s' % hx('sec a { x = 1 sub { } }\nuniq t { }\n'), '@OOM', 'parse_buf 0 %s' % hx('sec a { xs = "again" sub { y = 2 } }\nuniq t { }\nsec c { }\n')]
    return W


def gen_workload(rng, idx):
    """a generated workload: random schema, text and setter sequence; the fault window opens at init, parse or the setters"""
    from vlib import gen as G
    from checks import c05
    so = G.SchemaOpts(keystrval=True, nodefault=True, funcs=True, depth=2, maxopts=4)
    decls = G.gen_schema(rng, so)
    comments = rng.random() < 0.5
    toks = G.gen_text(rng, decls, fancy=False)
    return {'decls': [d.to_json() for d in decls], 'flags': F_COMMENTS if comments else 0, 'text': G.render(toks),
            'ops': c05.gen_ops(rng, decls, comments), 'window': rng.choice(['init', 'parse', 'ops'])}


def gen_script(spec):
    g = spec['gen']
    decls = [D.from_json(j) for j in g['decls']]
    lines, sid = schema.emit_schema(decls)
    oom = 'oomat %d' % spec['k']
    L = list(lines)
    if g['window'] == 'init':
        L.append(oom)
    L.append('init 0 %d %d' % (sid, g['flags']))
    if g['window'] == 'parse':
        L.append(oom)
    L.append('parse_buf 0 %s' % hx(g['text']))
    if g['window'] == 'ops':
        L.append(oom)
    L += g['ops']
    L.append('print 0')
    L.append('oomstat trace' if spec['k'] == 0 else 'oomstat')
    L.append('oomat 0')
    L.append('note after')
    L += ['dump 0', 'print 0']
    return '\n'.join(L)


def script(spec):
    if spec.get('gen'):
        return gen_script(spec)
    lines, sid = schema.emit_schema(DECLS)
    L = ['mkdir %s' % hx('spdir'), 'mkdir %s' % hx('spdir2'), 'mkfile %s %s' % (hx('spdir2/only2.conf'), hx('i = 22\n'))]
    for name, content in FILES.items():
        L.append('mkfile %s %s' % (hx(name), hx(content)))
        L.append('mkfile %s %s' % (hx('spdir/' + name), hx(content)))
    L += lines
    for l in workloads(sid)[spec['w']]:
        L.append(('oomat %d' % spec['k']) if l == '@OOM' else l)
    L.append('oomstat trace' if spec['k'] == 0 else 'oomstat')
    L.append('oomat 0')
    L.append('note after')
    # whatever context exists must still be usable
    for c in (0, 1):
        L.append('dump %d' % c)
        L.append('print %d' % c)
        L.append('parse_buf %d %s' % (c, hx('i = 77\n')))
    return '\n'.join(L)


def judge(spec, events, death):
    v = Verdict()
    site = spec.get('site', '?')
    v.nontrivial = True
    v.notes.setdefault('sites', set()).add(site)
    v.notes.setdefault('workloads', set()).add(spec['w'])
    if death is not None:
        stage = 'after' if any(e.get('ev') == 'note' and e.get('t') == 'after' for e in events) else 'during'
        v.bad('alloc=%s:effect=%s@%s:%s' % (site, death['kind'], death['where'], stage), 'workload %s, allocation #%d (%s) fails: %s' % (spec['w'], spec['k'], site, death['text'][-600:]))
        return v
    oom = [e for e in events if e.get('ev') == 'oom']
    if oom and oom[0]['failed'] is None and spec['k'] > 0:
        v.notes['not_reached'] = 1      # the run took another path and issued fewer allocations
    end = [e for e in events if e.get('ev') == 'endcase']
    if not end:
        v.bad('harness:short-log', 'no endcase')
        return v
    e = end[0]
    if e['live']:
        sites = sorted(set(s['f'] for s in e.get('sites', [])))
        v.bad('alloc=%s:effect=leak:%s' % (site, '+'.join(sites)[:60]), 'workload %s, allocation #%d (%s) fails: %d blocks still allocated after cfg_free (allocated in %s)' % (
            spec['w'], spec['k'], site, e['live'], sites))
    if e['files'] or e['fds'] != e['fds0']:
        v.bad('alloc=%s:effect=fd-leak' % site, 'workload %s, allocation #%d: descriptors not released' % (spec['w'], spec['k']))
    if e['toks']:
        v.bad('alloc=%s:effect=ptr-not-released' % site, 'workload %s, allocation #%d: pointer value not released' % (spec['w'], spec['k']))
    # "the call either completes or reports failure through its return value": find the call during which the injected
    # failure struck; if that call returned its success value, it claims to have completed, so the final tree must be the
    # one of the fault-free run
    ref = core._W['opts'].get('ref', {}).get(spec['w'])
    hit = next((i for i, x in enumerate(events) if x.get('ev') == 'oomhit'), None)
    if ref and hit is not None:
        op = events[hit]['op']
        prev = [x for x in events[:hit] if x.get('ev') in ('r', 'look', 'path', 'print', 'get')]
        claims_success = bool(prev) and prev[-1].get('ev') == 'r' and prev[-1].get('rc') == 0 and prev[-1].get('op') == op
        if op in ('init', 'initq'):
            claims_success = bool(prev) and prev[-1].get('rc') == 0
        dumps = [json.dumps(x['tree'], sort_keys=True) for x in events if x.get('ev') == 'dump']
        v.notes.setdefault('ops_hit', set()).add(op)
        ncb = len([x for x in events if x.get('ev') == 'cb' and x.get('k') == 'func'])
        if claims_success and 'funcs' in ref and ncb != ref['funcs']:
            v.bad('alloc=%s:effect=silent-incomplete:function-not-called:during-%s' % (site, op), 'workload %s, allocation #%d (%s) fails during %s: the call returns success, yet %d function callbacks ran instead of %d' % (
                spec['w'], spec['k'], site, op, ncb, ref['funcs']))
        if claims_success and dumps != ref['dumps']:
            v.bad('alloc=%s:effect=silent-incomplete:during-%s' % (site, op), 'workload %s, allocation #%d (%s) fails during %s: the call returns success, yet the resulting tree differs from the fault-free run (it did not complete and did not say so)' % (
                spec['w'], spec['k'], site, op))
    # resolution results (cfg_tilde_expand, cfg_searchpath): NULL reports the failure; any other answer claims completion and must be the fault-free answer
    if ref and hit is not None and 'paths' in ref:
        norm = lambda h: None if h is None else re.sub(r'verif_run_\w+', 'RUNDIR', core.unhx(h))     # (every run has its own scratch directory)
        got = [norm(x.get('v')) for x in events if x.get('ev') == 'path']
        rcs = [(x.get('op'), x.get('rc')) for x in events if x.get('ev') == 'r']
        refp = [norm(h) for h in ref['paths']]
        if len(got) == len(refp) and rcs == ref['rcs']:
            v.notes['resolution_results_compared'] = v.notes.get('resolution_results_compared', 0) + len(got)
            for g_, r_ in zip(got, refp):
                if g_ != r_ and g_ is not None:
                    v.bad('alloc=%s:effect=silent-wrong-resolution:during-%s' % (site, events[hit]['op']), 'workload %s, allocation #%d (%s) fails during %s: every call reports success, yet a name resolves to %r instead of %r' % (
                        spec['w'], spec['k'], site, events[hit]['op'], g_, r_))
                    break
    # a print call that reports success has written the whole text
    if ref and hit is not None and 'prints' in ref:
        pe = [x for x in events[:hit] if x.get('ev') == 'print']
        if pe and events[hit]['op'].startswith(('print', 'opt_print')) and pe[-1].get('rc') == 0:
            k = len(pe) - 1
            if k < len(ref['prints']) and pe[-1]['out'] != ref['prints'][k]:
                v.bad('alloc=%s:effect=silent-incomplete-print:during-%s' % (site, events[hit]['op']), 'workload %s, allocation #%d (%s) fails during %s: the call returns success, yet the text written differs from the fault-free run' % (
                    spec['w'], spec['k'], site, events[hit]['op']))
    bad_rc = [x for x in events if x.get('ev') == 'r' and x.get('rc') not in (0, -1, 1)]
    if bad_rc:
        v.bad('alloc=%s:effect=undocumented-return' % site, 'undocumented return value %r' % bad_rc[:2])
    return v


def alloc_ordinals(srcpath):
    """(func, line) -> ordinal of that allocation call among the allocation calls of the function"""
    call = re.compile(r'\b(malloc|calloc|realloc|reallocarray|strdup|strndup)\s*\(')
    hdr = re.compile(r'^(?:DLLIMPORT\s+|static\s+)?[A-Za-z_][\w\s\*]*?\b(\w+)\s*\([^;]*$')
    out = {}
    func = None
    count = {}
    with open(srcpath, encoding='latin-1') as f:
        lines = f.read().split('\n')
    for n, ln in enumerate(lines, 1):
        if ln and not ln[0].isspace() and not ln.startswith(('#', '/', '*', '}')):
            m = hdr.match(ln)
            if m and (ln.rstrip().endswith(')') or ln.rstrip().endswith(',')) :
                func = m.group(1)
        if func and call.search(ln) and not ln.lstrip().startswith(('*', '/*', '//')):
            count[func] = count.get(func, 0) + 1
            out[(func, n)] = count[func]
    return out


def site_name(ords, func, line, kind):
    return '%s#%s' % (func, ords.get((func, line), 'L%d' % line))


def run(tier, seed, bindirs):
    t0 = time.time()
    ords = alloc_ordinals(os.path.join(bindirs['asan'], 'src', 'confuse.c'))
    lines, sid = schema.emit_schema(DECLS)
    specs = []
    counts = {}
    ref = {}
    for w in workloads(sid):
        out = core.run_batch(bindirs['asan'], [(0, script({'w': w, 'k': 0}))])
        evs, death = out[0]
        if death is not None:
            raise core.HarnessError('fault-free run of workload %s dies: %s %s' % (w, death['kind'], death['text'][-300:]))
        oom = [e for e in evs if e.get('ev') == 'oom']
        trace = oom[0]['trace']
        counts[w] = len(trace)
        for k, (func, line, kind) in enumerate(trace, 1):
            specs.append({'w': w, 'k': k, 'site': site_name(ords, func, line, kind)})
        end = [e for e in evs if e.get('ev') == 'endcase'][0]
        if end['live']:
            raise core.HarnessError('fault-free run of workload %s leaks' % w)
        ref[w] = {'rcs': [(x.get('op'), x.get('rc')) for x in evs if x.get('ev') == 'r'], 'looks': [x.get('pos') for x in evs if x.get('ev') == 'look'],
                  'paths': [x.get('v') for x in evs if x.get('ev') == 'path'], 'prints': [x.get('out') for x in evs if x.get('ev') == 'print'], 'funcs': len([x for x in evs if x.get('ev') == 'cb' and x.get('k') == 'func']),
                  'dumps': [json.dumps(x['tree'], sort_keys=True) for x in evs if x.get('ev') == 'dump']}
    # generated workloads (random schema / text / setter sequence), every k of each
    rng = core.seeded_rng(seed, 'c18')
    ngen = 25 if tier == 'quick' else 800
    made = 0
    tries = 0
    while made < ngen and tries < ngen * 4:
        tries += 1
        g = gen_workload(rng, tries)
        w = 'gen%d' % tries
        out = core.run_batch(bindirs['asan'], [(0, script({'w': w, 'k': 0, 'gen': g}))])
        evs, death = out[0]
        if death is not None:
            continue
        oom = [e for e in evs if e.get('ev') == 'oom']
        end = [e for e in evs if e.get('ev') == 'endcase']
        if not oom or not end or end[0]['live'] or not oom[0]['trace'] or len(oom[0]['trace']) > 400:
            continue
        made += 1
        counts[w] = len(oom[0]['trace'])
        ref[w] = {'dumps': [json.dumps(x['tree'], sort_keys=True) for x in evs if x.get('ev') == 'dump']}
        for k, (func, line, kind) in enumerate(oom[0]['trace'], 1):
            specs.append({'w': w, 'k': k, 'site': site_name(ords, func, line, kind), 'gen': g})
    res = core.explore('checks.c18', specs, bindirs, chunk=30, opts={'solo_timeout': 60, 'ref': ref})
    return core.finish(PROP, tier, seed, 'fault_enumeration', res, RULE % len(counts), t0, floor=500, exhaustive=True,
                       assumptions=['only allocation requests issued from confuse.c are failed (the property excludes scanner-internal allocations)',
                                    'one failure per run; later requests succeed'],
                       more={'allocations_per_workload': {k: v for k, v in counts.items() if not k.startswith('gen')},
                             'generated_workloads': len([k for k in counts if k.startswith('gen')]),
                             'generated_workload_allocations': sum(v for k, v in counts.items() if k.startswith('gen'))})
