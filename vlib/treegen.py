"""treegen: schemas plus an explicit instance tree whose shape (and therefore every locator) is known statically."""
from vlib import gen as G
from vlib.schema import D
from vlib.core import F_MULTI, F_LIST, F_TITLE, F_NODEFAULT

SAFE_TITLES = ['a', 'b', 'c', 'web', 'main', 'T1', 'two words', 'x=y', 'Z', 'q9', 'it.s']


class Node:
    def __init__(self, decls, loc):
        self.decls = decls
        self.loc = loc          # locator of this section instance ('0', '0:2.1', ...)
        self.title = None
        self.kids = {}          # section option name -> list of Node
        self.assign = []        # (decl, rendered item text) leaf assignments placed in this instance


def gen_decls(rng, depth=0, counter=None, maxdepth=3, types=('int', 'float', 'bool', 'str'), nodefault=True, lists=True, funcs=False):
    counter = counter if counter is not None else [0]
    decls = []
    for _ in range(rng.randint(1, 4)):
        counter[0] += 1
        t = rng.choice(types)
        fl = F_LIST if lists and rng.random() < 0.3 else 0
        if nodefault and rng.random() < 0.2:
            fl |= F_NODEFAULT
        if fl & F_LIST:
            dv = None if rng.random() < 0.3 else [G.rand_default(rng, t) for _ in range(rng.randint(0, 3))]
            if t == 'str' and dv:
                dv = [x for x in dv if '"' not in x]
        else:
            dv = G.rand_default(rng, t)
            if t == 'str' and (dv is None or '"' in dv):
                dv = 'plain'
            if t == 'str' and rng.random() < 0.15:
                dv = None
        decls.append(D('%s%d' % (t[0], counter[0]), t, fl, dv))
    if funcs:
        for _ in range(rng.choice([0, 0, 1, 2])):
            counter[0] += 1
            decls.append(D('fn%d' % counter[0], 'func'))
    if depth < maxdepth:
        for _ in range(rng.randint(0 if depth else 1, 2)):
            counter[0] += 1
            fl = rng.choice([0, F_MULTI, F_MULTI | F_TITLE])
            decls.append(D('s%d' % counter[0], 'sec', fl, sub=gen_decls(rng, depth + 1, counter, maxdepth, types, nodefault, lists, funcs)))
    rng.shuffle(decls)
    return decls


def gen_instances(rng, decls, loc='0', titles=None, valgen=None):
    n = Node(decls, loc)
    titles = titles or SAFE_TITLES
    for i, d in enumerate(decls):
        if d.typ == 'sec':
            if d.is_multi:
                cnt = rng.choice([0, 1, 2, 2, 3])
                ts = rng.sample(titles, cnt) if d.flags & F_TITLE else [None] * cnt
            else:
                cnt, ts = 1, [None]
            inst = []
            for k in range(cnt):
                c = gen_instances(rng, d.sub, '%s:%d.%d' % (loc, i, k), titles, valgen)
                c.title = ts[k]
                inst.append(c)
            n.kids[d.name] = inst
        elif d.typ in ('int', 'float', 'bool', 'str') and rng.random() < 0.5:
            n.assign.append((d, (valgen or default_valgen)(rng, d)))
    return n


def safe_str(rng):
    return ''.join(rng.choice('abcxyzABC019 _-.:;!?@%^&~[]<>') for _ in range(rng.choice([0, 1, 3, 6])))


def default_valgen(rng, d):
    def one():
        if d.typ == 'str':
            return '"%s"' % safe_str(rng)
        return G.rand_value(rng, d.typ)[1]
    if d.is_list:
        op = '+=' if rng.random() < 0.3 else '='
        n = rng.randint(0, 3) if rng.random() < 0.96 else rng.choice([16, 17, 18, 33, 65, 130])      # (also across array-growth and line-wrap steps)
        return '%s %s {%s}' % (d.name, op, ', '.join(one() for _ in range(n)))
    return '%s = %s' % (d.name, one())


def dq(s):
    return '"' + s.replace('\\', '\\\\').replace('"', '\\"').replace('$', '\\$') + '"'


def render_text(node, ind=0):
    out = []
    for d, txt in node.assign:
        out.append('  ' * ind + txt)
    for d in node.decls:
        if d.typ != 'sec':
            continue
        for c in node.kids[d.name]:
            head = d.name + (' ' + dq(c.title) if d.flags & F_TITLE else '')
            out.append('  ' * ind + head + ' {')
            out += render_text(c, ind + 1)
            out.append('  ' * ind + '}')
    return out


def all_nodes(node, depth=0):
    yield node, depth
    for d in node.decls:
        if d.typ == 'sec':
            for c in node.kids[d.name]:
                yield from all_nodes(c, depth + 1)
