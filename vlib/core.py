"""core: build, drive, judge, report.  See DESIGN.md sections 3-5."""
import atexit, fnmatch, hashlib, json, multiprocessing, os, random, re, shutil, signal, subprocess, sys, tempfile, time

VERIF = os.path.dirname(os.path.dirname(os.path.abspath(__file__)))
REPO = os.environ.get('VERIF_REPO', '/repo')
NPROC = int(os.environ.get('VERIF_JOBS', '16'))

# ---- flag values (confuse.h)
F_MULTI, F_LIST, F_NOCASE, F_TITLE, F_NODEFAULT, F_NO_TITLE_DUPES = 1, 2, 4, 8, 16, 32
F_RESET, F_DEFINIT, F_IGNORE_UNKNOWN, F_DEPRECATED, F_DROP, F_COMMENTS, F_MODIFIED, F_KEYSTRVAL = 64, 128, 256, 512, 1024, 2048, 4096, 8192
CFG_SUCCESS, CFG_FAIL, CFG_FILE_ERROR, CFG_PARSE_ERROR = 0, -1, -1, 1

_tmpdirs = []


def _cleanup():
    for d in _tmpdirs:
        shutil.rmtree(d, ignore_errors=True)


atexit.register(_cleanup)
_main_pid = os.getpid()


def mktemp_dir(prefix='verif_'):
    d = tempfile.mkdtemp(prefix=prefix)
    if os.getpid() == _main_pid:
        _tmpdirs.append(d)
    return d


class HarnessError(Exception):
    pass


def build(variant, repo=None):
    """Build the driver for `variant` from the repository's working tree into a fresh temp dir."""
    pre = os.environ.get('VERIF_PREBUILT')      # (mutation screening only: tools/mutate.py builds each mutant once for all checks)
    if pre and os.path.exists(os.path.join(pre, variant, 'vdrv' if variant != 'fuzz' else 'fuzz_parse')):
        return os.path.join(pre, variant)
    out = mktemp_dir('verif_build_%s_' % variant)
    p = subprocess.run(['sh', os.path.join(VERIF, 'build', 'mk.sh'), variant, out, repo or REPO],
                       stdout=subprocess.PIPE, stderr=subprocess.STDOUT, text=True)
    if p.returncode != 0:
        sys.stderr.write(p.stdout)
        raise HarnessError('build of variant %s failed' % variant)
    return out


# ---- script encoding

def hx(s):
    """string token: None -> '-', str (latin-1) / bytes -> 'h<hex>'"""
    if s is None:
        return '-'
    if isinstance(s, str):
        s = s.encode('latin-1')
    return 'h' + s.hex()


def unhx(s):
    """log value: None -> None, hex -> latin-1 str"""
    if s is None:
        return None
    return bytes.fromhex(s).decode('latin-1')


def fhex(x):
    return float(x).hex()


def opt_line(name, typ, flags=0, dnum=0, dfp=0.0, dbool=0, dstr=None, dparsed=None, cbs='.', sub=None, simple=0, comment=None):
    line = 'o %s %s %d %d %s %d %s %s %s %s %d' % (hx(name), typ, flags, dnum, fhex(dfp), dbool, hx(dstr), hx(dparsed),
                                                  cbs or '.', '.' if sub is None else str(sub), simple)
    return line + (' ' + hx(comment) if comment is not None else '')


SAN_ENV = {
    'ASAN_OPTIONS': 'abort_on_error=1:halt_on_error=1:detect_leaks=1:allocator_may_return_null=1:detect_stack_use_after_return=0:handle_abort=0:symbolize=1',
    'UBSAN_OPTIONS': 'print_stacktrace=1:halt_on_error=1:abort_on_error=1',
    'LSAN_OPTIONS': 'exitcode=0:print_suppressions=0',
    'MSAN_OPTIONS': 'abort_on_error=1:halt_on_error=1',
    'LC_ALL': 'C',
}


def run_driver(bindir, script, timeout=120, flush=False, env_extra=None, cwd=None, keep=None, binary='vdrv', wrapper=None):
    """Run one driver process on a script.  Returns (events, status)."""
    wd = tempfile.mkdtemp(prefix='verif_run_')
    try:
        sp = os.path.join(wd, 'script')
        lp = os.path.join(wd, 'log')
        with open(sp, 'w') as f:
            f.write(script)
        env = dict(os.environ)
        env.update(SAN_ENV)
        if flush:
            env['VDRV_FLUSH'] = '1'
        if env_extra:
            env.update(env_extra)
        cmd = [os.path.join(bindir, binary), sp, lp]
        if wrapper:
            cmd = wrapper + cmd
        t0 = time.time()
        try:
            p = subprocess.run(cmd, stdin=subprocess.DEVNULL, stdout=subprocess.PIPE, stderr=subprocess.PIPE,
                               timeout=timeout, env=env, cwd=cwd or wd)
            st = {'exit': p.returncode, 'timeout': False, 'stderr': p.stderr.decode('latin-1')[-20000:],
                  'stdout': p.stdout.decode('latin-1')[-2000:]}
        except subprocess.TimeoutExpired as e:
            st = {'exit': None, 'timeout': True, 'stderr': (e.stderr or b'').decode('latin-1')[-20000:], 'stdout': ''}
        st['wall'] = time.time() - t0
        events = []
        try:
            with open(lp, 'rb') as f:
                for line in f:
                    try:
                        events.append(json.loads(line))
                    except ValueError:
                        pass
        except OSError:
            pass
        if keep:
            shutil.copy(sp, keep)
        return events, st
    finally:
        shutil.rmtree(wd, ignore_errors=True)


_frame_re = re.compile(r'#\d+ 0x[0-9a-f]+ in (\S+) (\S+)')


def classify_death(st):
    """Turn a dead driver's status into {'kind':..., 'where':..., 'text':...}."""
    err = st.get('stderr', '')
    if st.get('timeout'):
        return {'kind': 'hang', 'where': '', 'text': err[-2000:]}
    kind = None
    m = re.search(r'ERROR: (?:Address|Memory|Leak)Sanitizer: ([A-Za-z0-9_-]+)', err)
    if m:
        kind = m.group(1)
        if kind == 'SEGV' and 'stack-overflow' in err:
            kind = 'stack-overflow'
    if not kind:
        m = re.search(r'runtime error: ([^\n]*)', err)
        if m:
            kind = 'ubsan:' + re.sub(r'0x[0-9a-f]+|\d+', 'N', m.group(1))[:60]
    if not kind and 'WARNING: MemorySanitizer' in err:
        kind = 'use-of-uninitialized-value'
    if not kind and st.get('exit') == 99 and '==' in err:
        m = re.search(r'==\d+== ([A-Z][^\n]*)', err)
        kind = 'valgrind:' + (re.sub(r'\d+', 'N', m.group(1))[:50] if m else 'error')
    if not kind and 'Assertion' in err:
        kind = 'assert'
    if not kind and 'Parse error in default value' in err:
        kind = 'abort-in-init-defaults'
    if not kind:
        ex = st.get('exit')
        if ex is not None and ex < 0:
            kind = 'signal-%d' % (-ex)
        elif ex == 3:
            kind = 'harness'
        else:
            kind = 'exit-%s' % ex
    where = ''
    for fn, loc in _frame_re.findall(err):
        if ('confuse.c' in loc or 'lexer.' in loc) and not fn.startswith('vm_'):
            where = fn
            break
    return {'kind': kind, 'where': where, 'text': err[-3000:]}


def split_cases(events):
    """-> (dict cid -> events (complete cases only), in-flight cid or None, done?)"""
    done = False
    cases = {}
    cur = None
    buf = []
    for e in events:
        ev = e.get('ev')
        if ev == 'case':
            cur = e['id']
            buf = []
        elif ev == 'endcase':
            buf.append(e)
            cases[cur] = buf
            cur = None
            buf = []
        elif ev == 'done':
            done = True
        else:
            buf.append(e)
    return cases, cur, buf, done


def wrap_case(cid, body, leak=False):
    return 'case %d\n%s\nendcase%s\n' % (cid, body.rstrip('\n'), ' leak' if leak else '')


def run_batch(bindir, items, timeout=300, solo_timeout=60, leak=False, env_extra=None, cwd=None, binary='vdrv', wrapper=None):
    """items: list of (cid, body).  Returns dict cid -> (events, death|None).
    A case during which the driver dies is re-run alone (flushed log) and reported with its death."""
    results = {}
    pending = list(items)
    while pending:
        script = ''.join(wrap_case(cid, body, leak) for cid, body in pending)
        events, st = run_driver(bindir, script, timeout=timeout, env_extra=env_extra, cwd=cwd, binary=binary, wrapper=wrapper)
        cases, inflight, partial, done = split_cases(events)
        # LeakSanitizer's recoverable check re-reports old leaks: only the first case it fires in is the culprit,
        # later cases of this process are re-run in a fresh one
        order = [cid for cid, _ in pending]
        leaky = next((cid for cid in order if cid in cases and cases[cid][-1].get('lsan', 0) not in (0, -1)), None) if leak else None
        if leaky is not None:
            cut = order.index(leaky)
            for cid in order[:cut + 1]:
                results[cid] = (cases[cid], None)
            pending = pending[cut + 1:]
            continue
        for cid, evs in cases.items():
            results[cid] = (evs, None)
        if done and not st['timeout']:
            break
        if inflight is None:
            if st['timeout']:
                # stuck between cases?  treat as harness failure
                raise HarnessError('driver timed out outside any case: %s' % st['stderr'][-500:])
            d = classify_death(st)
            if d['kind'] == 'exit-0' and not pending:
                break
            raise HarnessError('driver died outside any case (%s): %s' % (d['kind'], st['stderr'][-1500:]))
        idx = [i for i, (cid, _) in enumerate(pending) if cid == inflight][0]
        cid, body = pending[idx]
        ev2, st2 = run_driver(bindir, wrap_case(cid, body, leak), timeout=solo_timeout, flush=True, env_extra=env_extra, cwd=cwd, binary=binary, wrapper=wrapper)
        c2, infl2, partial2, done2 = split_cases(ev2)
        if done2 and cid in c2 and not st2['timeout']:
            # did not reproduce alone: state carried over from earlier cases of the batch.
            # Report it with the batch context (death of the batch run).
            d = classify_death(st)
            d['batch_only'] = True
            results[cid] = (partial, d)
        else:
            results[cid] = (partial2, classify_death(st2))
        pending = pending[idx + 1:]
    return results


# ---- results

class Result:
    def __init__(self):
        self.evaluations = 0
        self.judged = 0
        self.nontrivial = set()
        self.samples = []
        self.violations = []      # dicts: key, msg, spec, script
        self.skipped = 0
        self.inconclusive = 0
        self.extra = {}           # name -> int (summed) or set (unioned)

    def merge(self, o):
        self.evaluations += o.evaluations
        self.judged += o.judged
        self.nontrivial |= o.nontrivial
        for s in o.samples:
            if len(self.samples) < 6:
                self.samples.append(s)
        self.violations.extend(o.violations)
        self.skipped += o.skipped
        self.inconclusive += o.inconclusive
        for k, v in o.extra.items():
            if isinstance(v, set):
                self.extra.setdefault(k, set()).update(v)
            elif isinstance(v, dict):
                d = self.extra.setdefault(k, {})
                for kk, vv in v.items():
                    d[kk] = d.get(kk, 0) + vv
            else:
                self.extra[k] = self.extra.get(k, 0) + v

    def count(self, name, n=1):
        self.extra[name] = self.extra.get(name, 0) + n

    def see(self, name, item):
        self.extra.setdefault(name, set()).add(item)

    def tally(self, name, key, n=1):
        d = self.extra.setdefault(name, {})
        d[key] = d.get(key, 0) + n


def spec_hash(spec):
    return hashlib.sha1(json.dumps(spec, sort_keys=True, default=str).encode()).hexdigest()[:16]


class Verdict:
    """Outcome of judging one case."""
    def __init__(self):
        self.viol = []            # (key, msg)
        self.nontrivial = False
        self.skipped = False      # unspecified: executed, not judged
        self.notes = {}           # name -> value for Result.see / count
        self.sample = None

    def bad(self, key, msg):
        self.viol.append((key, msg))


def death_violation(v, death, prefix='crash'):
    if death is None:
        return False
    v.bad('%s:%s@%s' % (prefix, death['kind'], death.get('where', '')), death['text'][-1500:])
    return True


# ---- parallel exploration

_W = {}


def _worker_init(modname, bindirs, opts):
    import importlib
    signal.signal(signal.SIGINT, signal.SIG_IGN)
    _W['mod'] = importlib.import_module(modname)
    _W['bindirs'] = bindirs
    _W['opts'] = opts


def _worker_chunk(chunk):
    mod = _W['mod']
    bindirs = _W['bindirs']
    opts = _W['opts']
    res = Result()
    try:
        variant = opts.get('variant') or getattr(mod, 'VARIANT', 'asan')
        items = []
        bodies = {}
        for i, spec in enumerate(chunk):
            body = mod.script(spec)
            bodies[i] = body
            items.append((i, body))
        if getattr(mod, 'ISOLATE', False):
            # one process per case: process-global state is the subject
            out = {}
            for it in items:
                out.update(run_batch(bindirs[variant], [it], leak=getattr(mod, 'LEAKCHECK', False),
                                     timeout=opts.get('solo_timeout', 60), solo_timeout=opts.get('solo_timeout', 60),
                                     cwd=opts.get('cwd'), env_extra=opts.get('env'), wrapper=opts.get('wrapper')))
        else:
            out = run_batch(bindirs[variant], items, leak=getattr(mod, 'LEAKCHECK', False),
                            timeout=opts.get('timeout', 300), solo_timeout=opts.get('solo_timeout', 60),
                            cwd=opts.get('cwd'), env_extra=opts.get('env'), wrapper=opts.get('wrapper'))
        for i, spec in enumerate(chunk):
            res.evaluations += 1
            if i not in out:
                res.inconclusive += 1
                continue
            events, death = out[i]
            if death is not None and death['kind'] == 'hang' and not getattr(mod, 'HANG_IS_VIOLATION', False):
                # re-run once more before giving up: watchdog firing is inconclusive, not a violation
                res.inconclusive += 1
                continue
            v = mod.judge(spec, events, death)
            generic_monitors(v, events)
            if v.skipped:
                res.skipped += 1
            else:
                res.judged += 1
            if v.nontrivial:
                res.nontrivial.add(spec_hash(spec))
            for k, val in v.notes.items():
                if isinstance(val, (set, list, tuple)):
                    for x in val:
                        res.see(k, x)
                else:
                    res.count(k, val)
            if len(res.samples) < 2 and (v.sample is not None or (v.nontrivial and not v.skipped)):
                res.samples.append(v.sample if v.sample is not None else spec)
            for key, msg in v.viol:
                res.violations.append({'key': key, 'msg': msg, 'spec': spec, 'script': bodies[i]})
    except HarnessError as e:
        res.extra['harness_errors'] = 1
        res.extra.setdefault('harness_msgs', set()).add(str(e)[:500])
    return res


def chunks(it, n):
    buf = []
    for x in it:
        buf.append(x)
        if len(buf) >= n:
            yield buf
            buf = []
    if buf:
        yield buf


_COV = {}


def _sampling(specs, keep):
    """pass specs through, remembering an evenly thinned sample (for the coverage pass)"""
    step, n = 1, 0
    for sp in specs:
        if n % step == 0:
            keep.append(sp)
            if len(keep) > 600:
                del keep[::2]
                step *= 2
        n += 1
        yield sp


def explore(modname, specs, bindirs, chunk=100, opts=None, nproc=None):
    """Run all specs of module `modname` in parallel; returns merged Result."""
    total = Result()
    nproc = nproc or NPROC
    scale = float(os.environ.get('VERIF_SCALE', '1') or 1)
    if scale < 1:
        # mutation screening only: a deterministic thinning of the workload
        k = max(1, int(round(1 / scale)))
        specs = (sp for i, sp in enumerate(specs) if i % k == 0)
    first = not _COV and 'cov' in bindirs and not (opts or {}).get('variant')
    sample = []
    if first:
        _COV.update({'modname': modname, 'bindirs': bindirs, 'opts': dict(opts or {}), 'sample': sample, 'chunk': chunk})
        specs = _sampling(specs, sample)
    with multiprocessing.Pool(nproc, initializer=_worker_init, initargs=(modname, bindirs, opts or {})) as pool:
        for r in pool.imap_unordered(_worker_chunk, chunks(specs, chunk)):
            total.merge(r)
    return total


def generic_monitors(v, events):
    """monitors that run in every check, whatever it judges: the driver cross-checks the getter families on each read
    (by name with index / by name / by option must give one answer) and reports a disagreement as an event"""
    for e in events or ():
        if e.get('ev') == 'api-disagree':
            v.bad('getter-families-disagree:%s' % e.get('what'), '%s disagrees with the indexed by-name getter on the same option (index %s)' % (e.get('what'), e.get('idx')))
            break


def coverage_pass(prop):
    """Re-run a sample of the workload on the gcov build; -> {anchored function: percent of lines executed}"""
    if not _COV or not _COV['sample']:
        return None
    bindirs = _COV['bindirs']
    opts = dict(_COV['opts'], variant='cov')
    sample = _COV['sample'][:400]
    with multiprocessing.Pool(min(NPROC, 8), initializer=_worker_init, initargs=(_COV['modname'], bindirs, opts)) as pool:
        for _ in pool.imap_unordered(_worker_chunk, chunks(sample, max(1, min(_COV['chunk'], len(sample) // 8 or 1)))):
            pass
    bd = bindirs['cov']
    p = subprocess.run('cd %s && gcov -f -o . src/confuse.c src/lexer.c 2>/dev/null' % bd, shell=True, stdout=subprocess.PIPE, text=True)
    funcs = {}
    cur = None
    for line in p.stdout.split('\n'):
        m = re.match(r"Function '(\w+)'", line)
        if m:
            cur = m.group(1)
            continue
        m = re.match(r'Lines executed:([0-9.]+)% of (\d+)', line)
        if m and cur:
            funcs[cur] = (float(m.group(1)), int(m.group(2)))
            cur = None
    # anchored functions of this property
    names = set()
    try:
        with open(os.path.join(VERIF, 'properties.jsonl')) as f:
            for l in f:
                pj = json.loads(l)
                if pj['id'] == prop:
                    txt = json.dumps(pj['anchors'])
                    names = set(re.findall(r'\b(cfg_\w+|parse_title|call_function|qputc|qput|qend|qstr|trim_whitespace)\b', txt))
    except OSError:
        pass
    out = {}
    for n in sorted(names):
        if n in funcs:
            out[n] = '%.0f%% of %d lines' % funcs[n]
    if 'cfg_yylex' in funcs:
        out['cfg_yylex (all lexer.l actions)'] = '%.0f%% of %d lines' % funcs['cfg_yylex']
    return {'sample_cases': len(sample), 'anchored_functions': out}


# ---- known findings, reporting

def load_findings():
    p = os.path.join(VERIF, 'known_findings.json')
    try:
        with open(p) as f:
            return json.load(f)
    except OSError:
        return {'findings': []}


def match_finding(prop, key, findings):
    for f in findings.get('findings', []):
        if f.get('property') != prop or f.get('status') != 'known':
            continue
        if fnmatch.fnmatchcase(key, f['key']):
            return f
    return None


def finish(prop, tier, seed, level, res, rule, t0, floor=1, assumptions=None, explanation=None, exhaustive=None, more=None):
    """Write evidence, print findings/violations, exit with the verdict's code."""
    findings = load_findings()
    known = {}
    unlisted = {}
    for v in res.violations:
        f = match_finding(prop, v['key'], findings)
        if f:
            known.setdefault(f['key'], (f, []))[1].append(v)
        else:
            unlisted.setdefault(v['key'], []).append(v)
    cov = {
        'evaluations': res.evaluations,
        'judged': res.judged,
        'distinct_nontrivial': len(res.nontrivial),
        'rule': rule,
        'samples': res.samples[:5],
        'unspecified_skipped': res.skipped,
        'inconclusive_cases': res.inconclusive,
        'known_findings_matched': sorted(known.keys()),
    }
    if exhaustive is not None:
        cov['exhaustive'] = exhaustive
    if explanation:
        cov['explanation'] = explanation
    for k, v in res.extra.items():
        if isinstance(v, set):
            cov[k] = len(v)
            if len(v) <= 60:
                cov[k + '_list'] = sorted(map(str, v))
        else:
            cov[k] = v
    if more:
        cov.update(more)
    if not os.environ.get('VERIF_NO_EVIDENCE') and not os.environ.get('VERIF_NO_COV'):
        try:
            cp = coverage_pass(prop)
            if cp:
                cov['line_coverage_of_anchored_functions'] = cp
        except Exception as e:      # coverage is evidence only; never let it change a verdict
            cov['line_coverage_of_anchored_functions'] = {'error': str(e)[:200]}
    ev = {
        'property_id': prop, 'tier': tier, 'seed': seed, 'level': level, 'coverage': cov,
        'assumptions': assumptions or [], 'wall_s': round(time.time() - t0, 2),
        'violations': len(unlisted),
    }
    os.makedirs(os.path.join(VERIF, 'evidence'), exist_ok=True)
    evpath = os.path.join(VERIF, 'evidence', prop + '.json')
    if os.environ.get('VERIF_NO_EVIDENCE'):
        evpath = os.devnull     # mutant trials must not overwrite the evidence of the real tree
    with open(evpath, 'w') as f:
        json.dump(ev, f, indent=1, sort_keys=True, default=str)
        f.write('\n')
    for key, (f, vs) in sorted(known.items()):
        print('KNOWN-FINDING: property=%s %s [%s] (%d occurrences)' % (prop, f.get('what', ''), key, len(vs)))
    code = 0
    if unlisted:
        rdir = os.path.join(VERIF, 'replays', prop)
        os.makedirs(rdir, exist_ok=True)
        n = 0
        for key, vs in sorted(unlisted.items()):
            v = min(vs, key=lambda x: len(x.get('script', '')))
            name = hashlib.sha1(key.encode()).hexdigest()[:12] + '.json'
            path = os.path.join(rdir, name)
            with open(path, 'w') as f:
                json.dump({'property': prop, 'key': key, 'msg': v['msg'], 'spec': v['spec'], 'script': v['script'],
                           'occurrences': len(vs)}, f, indent=1, default=str)
            if n < 20:
                print('VIOLATION property=%s replay=%s' % (prop, path))
                print('  key=%s n=%d: %s' % (key, len(vs), str(v['msg'])[:300].replace('\n', ' | ')))
            n += 1
        if n > 20:
            print('  ... %d more distinct violation keys' % (n - 20))
        code = 1
    herr = res.extra.get('harness_errors', 0)
    if code == 0 and (herr or res.judged < floor or len(res.nontrivial) < 2):
        sys.stderr.write('INCONCLUSIVE property=%s: judged=%d floor=%d nontrivial=%d harness_errors=%s %s\n' % (
            prop, res.judged, floor, len(res.nontrivial), herr, sorted(res.extra.get('harness_msgs', []))[:2]))
        code = 2
    print('%s %s seed=%d: %d evaluations, %d judged, %d distinct non-trivial, %d unspecified-skipped, %d inconclusive, %d known, %d unlisted violation keys, %.1fs' % (
        prop, tier, seed, res.evaluations, res.judged, len(res.nontrivial), res.skipped, res.inconclusive,
        len(known), len(unlisted), time.time() - t0))
    return code


def replay(modname, path, bindirs):
    import importlib
    mod = importlib.import_module(modname)
    with open(path) as f:
        rp = json.load(f)
    spec = rp['spec']
    body = mod.script(spec)
    variant = getattr(mod, 'VARIANT', 'asan')
    opts = mod.replay_opts(bindirs) if hasattr(mod, 'replay_opts') else {}
    _W['opts'] = opts
    out = run_batch(bindirs[variant], [(0, body)], leak=getattr(mod, 'LEAKCHECK', False), cwd=opts.get('cwd'), env_extra=opts.get('env'))
    events, death = out[0]
    v = mod.judge(spec, events, death)
    generic_monitors(v, events)
    print('replay of %s: key=%s' % (path, rp['key']))
    print('script:\n' + body)
    for e in events:
        print('  ' + json.dumps(e)[:400])
    if death:
        print('death:', death['kind'], death['where'])
        print(death['text'][-1500:])
    if v.viol:
        for key, msg in v.viol:
            print('VIOLATION property=%s replay=%s' % (rp['property'], path))
            print('  key=%s: %s' % (key, msg))
        return 1
    print('no violation on the current tree')
    return 0


def seeded_rng(seed, *salt):
    return random.Random(hashlib.sha1(('%d|%s' % (seed, '|'.join(map(str, salt)))).encode()).hexdigest())
