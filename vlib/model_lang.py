"""model_lang: reference meaning of a configuration text (token level), written from the statement of C01 and the
documentation of the language.  It interprets a token list against a model tree (schema.MSec) and says
accept / reject-at-token-k / unspecified, and after acceptance the tree holds the denoted values.

Tokens: [kind, spelling, value]; every kind in ('name', 'val', 'title') is a STRING token for the grammar
(the labels only record what the generator meant).  Punctuation kinds: '=', '+=', '{', '}', '(', ')', ','.
"""
from vlib import model_num
from vlib.schema import MSec, MOpt, D, F_LIST, F_MULTI, F_TITLE, F_NODEFAULT, F_NO_TITLE_DUPES, F_KEYSTRVAL, F_DEPRECATED, F_DROP, F_NOCASE

STR = ('name', 'val', 'title')


class Reject(Exception):
    def __init__(self, pos, why):
        Exception.__init__(self, why)
        self.pos = pos
        self.why = why


class Unspec(Exception):
    pass


class Interp:
    def __init__(self, flags=0, callbacks=None):
        self.nocase = bool(flags & F_NOCASE)
        self.trace = []          # callback trace (C14): ('parse', opt, text) / ('valid', opt, values) / ('func', opt, args)
        self.failat = 0
        self.ncb = 0
        self.events = []         # (kind, position) pairs for coverage: which (state, token kind) pairs were exercised
        self.diags = 0           # diagnostics the text must produce besides the rejecting one (deprecated options)

    # ---- helpers
    def find(self, sec, name):
        if ('|' in name or '=' in name) and not sec.keystrval:
            raise Unspec('path-like name')      # (inside a free-form key=value section a key is whatever the text says)
        for o in sec.opts:
            if o.d.name == name or (self.nocase and o.d.name.lower() == name.lower()):
                return o
        return None

    def cb(self, pos):
        """count one callback invocation; raise if it is the one scripted to fail"""
        self.ncb += 1
        if self.failat and self.ncb == self.failat:
            raise Reject(pos, 'callback-refuses')

    def convert(self, o, text, pos):
        d = o.d
        if 'p' in (d.cbs or ''):
            self.trace.append(('parse', d.name, text))
            self.cb(pos)
            n = sum(text.encode('latin-1')) + 1000 * len(text)
            if d.typ == 'int':
                return n
            if d.typ == 'float':
                return n + 0.5
            if d.typ == 'bool':
                return n & 1
            if d.typ == 'str':
                return '<' + text + '>'
            return ('ptr', text)
        if d.typ == 'str':
            return text
        r = {'int': model_num.conv_int, 'float': model_num.conv_float, 'bool': model_num.conv_bool}[d.typ](text)
        if r[0] == 'unspec':
            raise Unspec('conversion:' + r[1])
        if r[0] == 'reject':
            raise Reject(pos, 'bad-value')
        return r[1]

    def validate(self, o, pos):
        if 'v' in (o.d.cbs or ''):
            self.trace.append(('valid', o.d.name, [v for v in o.vals if not isinstance(v, MSec)]))
            self.cb(pos)

    # ---- grammar
    def parse(self, sec, toks, pos=0, level=0):
        """parse items of one section body; returns the position after the closing '}' (or len at top level)"""
        n = len(toks)
        while True:
            if pos >= n:
                if level:
                    raise Reject(n, 'premature-eof')
                return pos
            k = toks[pos][0]
            self.events.append(('item-start', k))
            if k == '}':
                if level == 0:
                    raise Reject(pos, 'unexpected-closing-brace')
                return pos + 1
            if k not in STR:
                raise Reject(pos, 'unexpected-token')
            name = toks[pos][2]
            tsec = sec
            if ('|' in name or '=' in name) and not sec.keystrval:
                # a name written as a path addresses the option it resolves to, relative to the section being read (statement of C11)
                if self.nocase:
                    raise Unspec('path-like name under NOCASE')
                from vlib import model_store
                tsec, o, _ = model_store.resolve(sec, name)
                if o is None:
                    raise Reject(pos, 'unknown-option')
            else:
                o = self.find(sec, name)
            if o is None:
                if sec.keystrval:
                    nd = D(name, 'str', 0, None)
                    o = MOpt(nd)
                    sec.opts.append(o)
                else:
                    raise Reject(pos, 'unknown-option')
            d = o.d
            if d.simple and (d.is_list or d.typ not in ('int', 'float', 'bool', 'str')):
                raise Unspec('simple option of this kind')
            if d.typ == 'sec':
                pos = self.section(tsec, o, toks, pos + 1, level)
            elif d.typ == 'func':
                pos = self.call(tsec, o, toks, pos + 1)
            else:
                pos = self.assign(tsec, o, toks, pos + 1)
            if d.flags & F_DEPRECATED:
                self.diags += 1
                if d.flags & F_DROP:
                    o.vals = []

    def need(self, toks, pos, kinds, why, ev):
        if pos >= len(toks):
            raise Reject(len(toks), 'premature-eof')
        self.events.append((ev, toks[pos][0]))
        if toks[pos][0] not in kinds:
            raise Reject(pos, why)

    def assign(self, sec, o, toks, pos):
        d = o.d
        self.need(toks, pos, ('=', '+='), 'missing-equal-sign', 'after-name')
        op = toks[pos][0]
        if op == '+=' and not d.is_list:
            raise Reject(pos, 'append-to-non-list')
        pos += 1
        if not d.is_list:
            self.need(toks, pos, STR, 'unexpected-token', 'scalar-value')
            v = self.convert(o, toks[pos][2], pos)
            if d.simple:
                o.sv = v
                o.mod = True
                self.validate(o, pos)
                return pos + 1
            o.vals = [v]
            o.mod = True
            self.validate(o, pos)
            return pos + 1
        # list
        if pos >= len(toks):
            raise Reject(len(toks), 'premature-eof')
        self.events.append(('list-start', toks[pos][0]))
        first = [op == '=']

        def store(v):
            if first[0]:
                o.vals = []
                first[0] = False
            o.vals.append(v)
            o.mod = True
        if toks[pos][0] in STR:
            store(self.convert(o, toks[pos][2], pos))
            self.validate(o, pos)
            return pos + 1
        if toks[pos][0] != '{':
            raise Reject(pos, 'unexpected-token')
        pos += 1
        count = 0
        while True:
            if pos >= len(toks):
                raise Reject(len(toks), 'premature-eof')
            k = toks[pos][0]
            self.events.append(('list-elem', k))
            if k == '}':
                if count:
                    raise Unspec('trailing comma in list')
                if first[0]:
                    o.vals = []
                    first[0] = False
                o.mod = True
                return pos + 1
            if k not in STR:
                raise Reject(pos, 'unexpected-token')
            store(self.convert(o, toks[pos][2], pos))
            self.validate(o, pos)
            count += 1
            pos += 1
            if pos >= len(toks):
                raise Reject(len(toks), 'premature-eof')
            k = toks[pos][0]
            self.events.append(('list-sep', k))
            if k == '}':
                self.validate_close(o, pos)
                return pos + 1
            if k != ',':
                raise Reject(pos, 'unexpected-token')
            pos += 1

    def validate_close(self, o, pos):
        # the library validates once more when a braced list is closed; the statement only demands the per-value call
        if 'v' in (o.d.cbs or ''):
            self.trace.append(('valid-close', o.d.name, list(o.vals)))
            self.cb(pos)

    def section(self, sec, o, toks, pos, level):
        d = o.d
        title = None
        if d.flags & F_TITLE:
            if not d.is_multi:
                raise Unspec('TITLE without MULTI')
            self.need(toks, pos, STR, 'missing-title', 'section-title')
            title = toks[pos][2]
            pos += 1
        self.need(toks, pos, ('{',), 'missing-opening-brace', 'section-brace')
        if d.flags & F_KEYSTRVAL and any(x.typ == 'sec' for x in (d.sub or [])):
            raise Unspec('key=value section with sub-sections')
        inst = None
        if d.is_multi:
            if d.flags & F_TITLE:
                for k, s in enumerate(o.vals):
                    if s.title == title or (self.nocase and s.title.lower() == title.lower()):
                        if d.flags & F_NO_TITLE_DUPES:
                            raise Reject(pos, 'duplicate-title')
                        inst = MSec(d.name, d.sub, title, bool(d.flags & F_KEYSTRVAL))
                        o.vals[k] = inst
                        break
            if inst is None:
                inst = MSec(d.name, d.sub, title, bool(d.flags & F_KEYSTRVAL))
                o.vals.append(inst)
        else:
            if not o.vals:
                o.vals.append(MSec(d.name, d.sub, None, bool(d.flags & F_KEYSTRVAL)))
            inst = o.vals[0]
        o.mod = True
        pos = self.parse(inst, toks, pos + 1, level + 1)
        self.validate_sec(o, pos - 1)
        return pos

    def validate_sec(self, o, pos):
        if 'v' in (o.d.cbs or ''):
            self.trace.append(('valid-sec', o.d.name, len(o.vals)))
            self.cb(pos)

    def call(self, sec, o, toks, pos):
        self.need(toks, pos, ('(',), 'missing-parenthesis', 'call-paren')
        pos += 1
        args = []
        while True:
            if pos >= len(toks):
                raise Reject(len(toks), 'premature-eof')
            k = toks[pos][0]
            self.events.append(('call-arg', k))
            if k == ')':
                if args:
                    raise Unspec('trailing comma in call')
                break
            if k not in STR:
                raise Reject(pos, 'syntax-error-in-call')
            args.append(toks[pos][2])
            pos += 1
            if pos >= len(toks):
                raise Reject(len(toks), 'premature-eof')
            k = toks[pos][0]
            self.events.append(('call-sep', k))
            if k == ')':
                break
            if k != ',':
                raise Reject(pos, 'syntax-error-in-call')
            pos += 1
        if 'I' in (o.d.cbs or ''):
            raise Unspec('include')
        if 'F' in (o.d.cbs or ''):
            self.trace.append(('func', o.d.name, args))
            self.cb(pos)
        return pos + 1


def interpret(root, toks, flags=0, failat=0):
    """-> ('accept', None, interp) | ('reject', pos, interp) | ('unspec', why, interp).  Mutates root."""
    it = Interp(flags)
    it.failat = failat
    try:
        it.parse(root, toks, 0, 0)
    except Reject as r:
        it.why = r.why
        return 'reject', r.pos, it
    except Unspec as u:
        return 'unspec', str(u), it
    return 'accept', None, it
