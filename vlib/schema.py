"""schema: option declarations shared by generators, script emission and the reference models."""
from vlib.core import hx, unhx, opt_line, fhex, F_MULTI, F_LIST, F_NOCASE, F_TITLE, F_NODEFAULT, F_NO_TITLE_DUPES, F_KEYSTRVAL, F_MODIFIED, F_RESET, F_DEPRECATED, F_DROP


class D:
    """one option declaration"""
    def __init__(self, name, typ, flags=0, default=None, sub=None, cbs='', simple=False, dparsed=None, comment=None):
        self.comment = comment    # .comment set in the declaration itself (no CFG_* macro does it, a hand-written initialiser may)
        self.name = name
        self.typ = typ            # int float bool str ptr sec func
        self.flags = flags
        self.default = default    # scalar: python value; list: list of python values or None
        self.sub = sub            # sec: list of D (None = CFG_SEC(name, NULL, ..))
        self.cbs = cbs
        self.simple = simple
        self.dparsed = dparsed    # raw override of def.parsed

    @property
    def is_list(self):
        return bool(self.flags & F_LIST)

    @property
    def is_multi(self):
        return bool(self.flags & F_MULTI)

    def to_json(self):
        return {'name': self.name, 'typ': self.typ, 'flags': self.flags, 'default': self.default,
                'sub': None if self.sub is None else [s.to_json() for s in self.sub], 'cbs': self.cbs,
                'simple': self.simple, 'dparsed': self.dparsed, 'comment': self.comment}

    @staticmethod
    def from_json(j):
        return D(j['name'], j['typ'], j['flags'], j['default'], None if j['sub'] is None else [D.from_json(s) for s in j['sub']],
                 j['cbs'], j['simple'], j['dparsed'], j.get('comment'))


def render_value(typ, v, quote='"'):
    """text of one value as it may appear in a configuration file"""
    if typ == 'int':
        return str(v)
    if typ == 'float':
        return repr(float(v))
    if typ == 'bool':
        return 'true' if v else 'false'
    s = v if v is not None else ''
    return '"' + s.replace('\\', '\\\\').replace('"', '\\"') + '"'


def default_parsed(d):
    if d.dparsed is not None:
        return d.dparsed
    if d.is_list and d.default is not None:
        return '{' + ', '.join(render_value(d.typ, v) for v in d.default) + '}'
    return None


def emit(decls, lines, counter):
    """append schema definitions (nested first); returns the schema id of `decls`"""
    subs = {}
    for i, d in enumerate(decls):
        if d.typ == 'sec' and d.sub is not None:
            subs[i] = emit(d.sub, lines, counter)
    sid = counter[0]
    counter[0] += 1
    lines.append('schema %d' % sid)
    for i, d in enumerate(decls):
        kw = dict(flags=d.flags, cbs=d.cbs or '.', sub=subs.get(i), simple=1 if d.simple else 0, comment=d.comment)
        if d.typ in ('int', 'float', 'bool', 'str') and not d.is_list:
            if d.typ == 'int':
                kw['dnum'] = d.default or 0
            elif d.typ == 'float':
                kw['dfp'] = d.default or 0.0
            elif d.typ == 'bool':
                kw['dbool'] = 1 if d.default else 0
            else:
                kw['dstr'] = d.default
            if d.dparsed is not None:
                kw['dparsed'] = d.dparsed
        else:
            kw['dparsed'] = default_parsed(d)
        lines.append(opt_line(d.name, d.typ, **kw))
    lines.append('endschema')
    return sid


def emit_schema(decls):
    lines = []
    sid = emit(decls, lines, [0])
    return lines, sid


# ---- model state

class MOpt:
    __slots__ = ('d', 'vals', 'mod', 'comment', 'sv')

    def __init__(self, d):
        self.d = d
        self.vals = []
        self.mod = False
        self.comment = None
        self.sv = None            # "simple" options: the value lives in the caller's variable


class MSec:
    __slots__ = ('name', 'title', 'opts', 'keystrval')

    def __init__(self, name, decls, title=None, keystrval=False):
        self.name = name
        self.title = title
        self.keystrval = keystrval
        self.opts = [new_opt(d) for d in (decls or [])]

    def find(self, name, nocase=False):
        for o in self.opts:
            if o.d.name == name or (nocase and o.d.name.lower() == name.lower()):
                return o
        return None


def new_opt(d):
    o = MOpt(d)
    if d.simple:
        o.sv = None if d.typ == 'str' else (d.default or (0.0 if d.typ == 'float' else 0))
        return o
    if d.flags & F_NODEFAULT:
        return o
    if d.typ == 'sec':
        if not d.is_multi:
            o.vals = [MSec(d.name, d.sub, None, bool(d.flags & F_KEYSTRVAL))]
    elif d.typ in ('func', 'ptr'):
        pass
    elif d.is_list:
        o.vals = list(d.default or [])
    elif d.dparsed is not None:
        # a hand-written declaration may give a scalar its default as text: "" = no value, otherwise one value token
        o.vals = [] if d.dparsed == '' else [parsed_scalar(d)]
    else:
        o.vals = [d.default if d.typ == 'str' else (d.default or (0.0 if d.typ == 'float' else 0))]
    return o


def parsed_scalar(d):
    from vlib import model_num
    t = d.dparsed
    if d.typ == 'str':
        return t[1:-1] if len(t) >= 2 and t[0] == t[-1] == '"' else t
    r = {'int': model_num.conv_int, 'float': model_num.conv_float, 'bool': model_num.conv_bool}[d.typ](t)
    assert r[0] == 'ok', (d.name, t, r)
    return r[1]


def new_root(decls):
    return MSec('root', decls)


def clone_sec(s):
    n = MSec(s.name, None, s.title, s.keystrval)
    for o in s.opts:
        c = MOpt(o.d)
        c.mod = o.mod
        c.comment = o.comment
        c.sv = o.sv
        c.vals = [clone_sec(v) if isinstance(v, MSec) else v for v in o.vals]
        n.opts.append(c)
    return n


# ---- comparison of a driver dump with a model state

def norm_dump_val(typ, v):
    if typ == 'float':
        return float.fromhex(v)
    if typ == 'str':
        return unhx(v)
    return v


def diff_sec(ms, dump, path='', check_mod=True, check_comment=False, sec_mod=False, simple_mod=False, ptr_len=True):
    """returns a list of difference strings (empty = equal)"""
    out = []
    if dump is None:
        return ['%s: section missing in dump' % path]
    title = unhx(dump.get('title'))
    if ms.title != title:
        out.append('%s: title %r != expected %r' % (path, title, ms.title))
    dopts = dump['opts']
    if len(dopts) != len(ms.opts):
        out.append('%s: %d options, expected %d (%s vs %s)' % (path, len(dopts), len(ms.opts), [unhx(o['n']) for o in dopts], [o.d.name for o in ms.opts]))
        return out
    for mo, do in zip(ms.opts, dopts):
        name = unhx(do['n'])
        p = path + '/' + mo.d.name
        if name != mo.d.name:
            out.append('%s: name %r' % (p, name))
            continue
        if mo.d.typ == 'func' or (mo.d.typ == 'ptr' and not ptr_len):
            continue
        vals = do['v']
        if mo.d.simple:
            got = norm_dump_val(mo.d.typ, do.get('sv')) if do.get('sv') is not None else None
            exp = float(mo.sv) if (mo.d.typ == 'float' and mo.sv is not None) else mo.sv
            if got != exp:
                out.append('%s: simple value %r, expected %r' % (p, got, exp))
            if simple_mod and check_mod and bool(do['f'] & F_MODIFIED) != mo.mod:
                out.append('%s: modified flag %s, expected %s' % (p, bool(do['f'] & F_MODIFIED), mo.mod))
            continue
        if len(vals) != len(mo.vals):
            out.append('%s: %d values %r, expected %d %r' % (p, len(vals), short(mo.d.typ, vals), len(mo.vals), short_m(mo.vals)))
            continue
        if mo.d.typ == 'sec':
            for k, (mv, dv) in enumerate(zip(mo.vals, vals)):
                out.extend(diff_sec(mv, dv, '%s[%d]' % (p, k), check_mod, check_comment, sec_mod, simple_mod, ptr_len))
            if sec_mod and check_mod and bool(do['f'] & F_MODIFIED) != mo.mod:
                out.append('%s: modified flag %s, expected %s' % (p, bool(do['f'] & F_MODIFIED), mo.mod))
            continue
        if mo.d.typ == 'ptr':
            continue
        got = [norm_dump_val(mo.d.typ, v) for v in vals]
        exp = list(mo.vals)
        if mo.d.typ == 'float':
            exp = [float(x) for x in exp]
        if got != exp:
            out.append('%s: values %r, expected %r' % (p, got, exp))
        if check_mod and bool(do['f'] & F_MODIFIED) != mo.mod:
            out.append('%s: modified flag %s, expected %s' % (p, bool(do['f'] & F_MODIFIED), mo.mod))
        if check_comment and unhx(do['c']) != mo.comment:
            out.append('%s: comment %r, expected %r' % (p, unhx(do['c']), mo.comment))
    return out


def short(typ, vals):
    if typ == 'sec':
        return ['sec'] * len(vals)
    return [norm_dump_val(typ, v) for v in vals][:8]


def short_m(vals):
    return ['sec' if isinstance(v, MSec) else v for v in vals][:8]


def dump_values_only(dump):
    """a canonical nested structure of a dump with values and titles only (for differential comparison)"""
    if dump is None:
        return None
    return (unhx(dump.get('title')), tuple(
        (unhx(o['n']), o['t'], tuple(dump_values_only(v) if o['t'] == 'sec' else v for v in o['v']),
         o.get('sv')) for o in dump['opts']))
