"""model_num: reference text -> number/boolean conversion, written from the statement of C04.

Each function returns ('ok', value) | ('reject', None) | ('unspec', why).
"""
import re

LONG_MAX = 2 ** 63 - 1
LONG_MIN = -2 ** 63
WS = ' \t\n\v\f\r'

_dec = re.compile(r'^[+-]?[0-9]+\Z')
_hex = re.compile(r'^0x[0-9a-fA-F]+\Z')
_bin = re.compile(r'^0b[01]+\Z')
_oct = re.compile(r'^0[0-7]*\Z')
_flt = re.compile(r'^[+-]?([0-9]+(\.[0-9]*)?|\.[0-9]+)([eE][+-]?[0-9]+)?\Z')


def conv_int(tok):
    if tok == '':
        return ('reject', None)
    if tok[0] in WS:
        return ('unspec', 'leading-space')
    if tok[0] in '+-' and len(tok) > 2 and tok[1] == '0':
        # sign combined with a radix prefix: '-0x10', '-010' - the statement can be read either way
        return ('unspec', 'sign+prefix')
    if tok[0] == '0':
        if tok.startswith('0x'):
            ok = bool(_hex.match(tok))
            val = int(tok[2:], 16) if ok else None
        elif tok.startswith('0b'):
            ok = bool(_bin.match(tok))
            val = int(tok[2:], 2) if ok else None
        else:
            ok = bool(_oct.match(tok))
            val = int(tok, 8) if ok else None
    else:
        ok = bool(_dec.match(tok))
        val = int(tok, 10) if ok else None
    if not ok:
        return ('reject', None)
    if val < LONG_MIN or val > LONG_MAX:
        return ('reject', None)
    return ('ok', val)


def _is_radix_tail(s):
    """s starts with '0' and has more characters: would a radix-guessing reader treat it as prefixed?"""
    return bool(re.match(r'^0(x[0-9a-fA-F]+|b[01]+|[0-7]+)$', s))


_special = re.compile(r'^[+-]?(inf|infinity|nan(\([A-Za-z0-9_]*\))?)\Z', re.I)
_hexflt = re.compile(r'^[+-]?0[xX]')
DBL_MIN = 2.2250738585072014e-308


def conv_float(tok):
    if tok == '':
        return ('reject', None)
    if tok[0] in WS:
        return ('unspec', 'leading-space')
    if _special.match(tok):
        return ('unspec', 'inf-nan')
    if _hexflt.match(tok):
        return ('unspec', 'hex-float')
    if not _flt.match(tok):
        return ('reject', None)
    try:
        v = float(tok)
    except (ValueError, OverflowError):
        return ('reject', None)
    if v in (float('inf'), float('-inf')):
        return ('reject', None)
    if abs(v) < DBL_MIN:
        # zero result: exact zero literal is fine, otherwise underflow/denormal is unspecified
        mant = re.split('[eE]', tok.lstrip('+-'))[0]
        if v == 0.0 and mant.strip('0.') == '':
            return ('ok', v)
        return ('unspec', 'underflow')
    return ('ok', v)


_TRUE = ('true', 'yes', 'on')
_FALSE = ('false', 'no', 'off')


def conv_bool(tok):
    low = tok.lower()
    # str.lower() also folds non-ASCII letters; the statement is about ASCII letter case
    if any(ord(c) > 127 for c in tok):
        return ('reject', None)
    if low in _TRUE:
        return ('ok', 1)
    if low in _FALSE:
        return ('ok', 0)
    return ('reject', None)
