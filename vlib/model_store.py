"""model_store: the abstract typed store of C09 (ordered value sequence per option, ordered title-keyed
section sequence per section option).  apply(root, op) -> rc (0 ok / -1 refused) or 'unspec'."""
from vlib import model_num
from vlib.schema import MSec, MOpt, F_LIST, F_MULTI, F_TITLE, F_KEYSTRVAL
from vlib.core import hx, fhex

UNSPEC = 'unspec'


def resolve(root, path, want_sec=False):
    """resolve a by-path name.  -> (section, option, instance index or None) ; option None = not found"""
    sec = root
    steps = path.split('|')
    for k, st in enumerate(steps):
        last = k == len(steps) - 1
        name, qual = st, None
        if '=' in st:
            name, qual = st.split('=', 1)
        o = sec.find(name)
        if o is None:
            return None, None, None
        if last and not want_sec:
            if qual is not None:
                return None, None, None
            return sec, o, None
        if o.d.typ != 'sec':
            return None, None, None
        if qual is None:
            idx = 0
        elif not o.d.is_multi:
            return None, None, None
        elif o.d.flags & F_TITLE:
            if qual.startswith("'"):
                # name='quoted title' with \' and \\ escapes (only well-formed spellings are used by the callers)
                body = qual[1:-1] if len(qual) >= 2 and qual.endswith("'") else None
                if body is None:
                    return None, None, None
                qual = body.replace("\\'", "'").replace('\\\\', '\\')
            idx = next((i for i, s in enumerate(o.vals) if s.title == qual), -1)
        else:
            try:
                idx = int(qual)
            except ValueError:
                idx = -1
        if idx < 0 or idx >= len(o.vals):
            return (sec, o, -1) if last else (None, None, None)
        if last:
            return sec, o, idx
        sec = o.vals[idx]
    return None, None, None


def conv(typ, s):
    if typ == 'int':
        return model_num.conv_int(s)
    if typ == 'float':
        return model_num.conv_float(s)
    if typ == 'bool':
        return model_num.conv_bool(s)
    if typ == 'str':
        return ('ok', s)
    return ('unspec', 'type')


def apply(root, op):
    kind = op[0]
    # the by-option variants of the API behave like their by-name twins
    if kind == 'optset':
        return apply(root, ['set', op[1], op[2], op[3], op[4]])
    if kind == 'optsetmulti':
        return apply(root, ['setmulti', op[1], op[2]])
    if kind == 'optrmnsec':
        return apply(root, ['rmnsec', op[1], op[2]])
    if kind == 'optrmtsec':
        return apply(root, ['rmtsec', op[1], op[2]])
    if kind == 'optsetcomment':
        sec, o, _ = resolve(root, op[1])
        if o is None:
            return -1
        o.comment = op[2]
        o.mod = True
        return 0
    if kind == 'set':
        _, typ, name, value, idx = op
        sec, o, _ = resolve(root, name)
        if o is None or o.d.typ != typ:
            return -1
        i = idx or 0
        if o.d.simple:
            # a "simple" option is a scalar whose one value lives in the caller's variable
            if i != 0:
                return -1
            o.sv = value
            o.mod = True
            return 0
        if i != 0 and not o.d.is_list:
            return -1
        if typ == 'str' and value is None and False:
            return UNSPEC
        if i < len(o.vals):
            o.vals[i] = value
        elif i == len(o.vals):
            o.vals.append(value)
        else:
            return UNSPEC          # index gap on a list: the statement does not say
        o.mod = True
        return 0
    if kind == 'selfstr':
        _, name, frm, to = op
        sec, o, _ = resolve(root, name)
        if o is None or o.d.typ != 'str':
            return -1
        if o.d.simple:
            return UNSPEC
        if to != 0 and not o.d.is_list:
            return -1
        src = o.vals[frm] if frm < len(o.vals) else None
        if src is None:
            return UNSPEC          # copying a NULL / absent value: not what this call is about
        if to < len(o.vals):
            o.vals[to] = src
        elif to == len(o.vals):
            o.vals.append(src)
        else:
            return UNSPEC
        o.mod = True
        return 0
    if kind in ('setlist', 'addlist'):
        _, name, typ, vals = op
        sec, o, _ = resolve(root, name)
        if o is None or not o.d.is_list:
            return -1
        if o.d.simple:
            return UNSPEC
        if o.d.typ != typ:
            return UNSPEC          # passing varargs of another type is undefined in C
        if kind == 'setlist':
            o.vals = list(vals)
        else:
            o.vals.extend(vals)
        if vals or kind == 'setlist':
            o.mod = True
        return 0
    if kind == 'setmulti':
        _, name, strs = op
        sec, o, _ = resolve(root, name)
        if o is None or not strs:
            return -1
        if o.d.simple:
            return UNSPEC
        if o.d.typ not in ('int', 'float', 'bool', 'str'):
            return UNSPEC
        if not o.d.is_list and len(strs) > 1:
            return UNSPEC
        new = []
        for s in strs:
            c = conv(o.d.typ, s)
            if c[0] == 'unspec':
                return UNSPEC
            if c[0] == 'reject':
                return -1
            new.append(c[1])
        o.vals = new
        o.mod = True
        return 0
    if kind == 'setopt':
        _, name, s = op
        sec, o, _ = resolve(root, name)
        if o is None:
            return UNSPEC
        if o.d.is_list or o.d.simple or o.d.typ not in ('int', 'float', 'bool', 'str'):
            return UNSPEC
        c = conv(o.d.typ, s)
        if c[0] == 'unspec':
            return UNSPEC
        if c[0] == 'reject':
            return -1
        o.vals = [c[1]]
        o.mod = True
        return 0
    if kind == 'addtsec':
        _, name, title = op
        sec, o, _ = resolve(root, name)
        if o is None:
            return -1
        if o.d.typ != 'sec':
            return -1              # wrong type: must fail without effect
        if not (o.d.flags & F_TITLE) or not o.d.is_multi:
            return UNSPEC
        if any(s.title == title for s in o.vals):
            return -1
        o.vals.append(MSec(o.d.name, o.d.sub, title, bool(o.d.flags & F_KEYSTRVAL)))
        o.mod = True
        return 0
    if kind == 'rmnsec':
        _, name, idx = op
        sec, o, _ = resolve(root, name)
        if o is None or o.d.typ != 'sec':
            return -1
        if idx < 0 or idx >= len(o.vals):
            return -1
        del o.vals[idx]
        return 0
    if kind == 'rmtsec':
        _, name, title = op
        sec, o, _ = resolve(root, name)
        if o is None or o.d.typ != 'sec' or not (o.d.flags & F_TITLE):
            return -1
        for i, s in enumerate(o.vals):
            if s.title == title:
                del o.vals[i]
                return 0
        return -1
    if kind == 'rmtsecself':
        _, name, idx = op
        sec, o, _ = resolve(root, name)
        if o is None or o.d.typ != 'sec' or not (o.d.flags & F_TITLE) or idx >= len(o.vals):
            return -1
        del o.vals[idx]
        return 0
    if kind == 'rmsec':
        _, path = op
        sec, o, idx = resolve(root, path, want_sec=True)
        if o is None or o.d.typ != 'sec' or idx is None or idx < 0:
            return -1
        del o.vals[idx]
        return 0
    raise ValueError(kind)


def render(op, optloc=None):
    """script line for an op against context 0"""
    kind = op[0]
    if kind == 'optset':
        _, typ, name, value, idx = op
        v = fhex(value) if typ == 'float' else hx(value) if typ == 'str' else str(int(value))
        return 'opt_set%s %s %s %d' % (typ, optloc(name), v, idx)
    if kind == 'optsetmulti':
        return 'opt_setmulti 0 %s %d %s' % (optloc(op[1]), len(op[2]), ' '.join(hx(x) for x in op[2]))
    if kind == 'optrmnsec':
        return 'opt_rmnsec %s %d' % (optloc(op[1]), op[2])
    if kind == 'optrmtsec':
        return 'opt_rmtsec %s %s' % (optloc(op[1]), hx(op[2]))
    if kind == 'optsetcomment':
        return 'opt_setcomment %s %s' % (optloc(op[1]), hx(op[2]))
    if kind == 'set':
        _, typ, name, value, idx = op
        if typ == 'float':
            v = fhex(value)
        elif typ == 'str':
            v = hx(value)
        else:
            v = str(int(value))
        return 'set%s 0 %s %s%s' % (typ, hx(name), v, '' if idx is None else ' %d' % idx)
    if kind == 'selfstr':
        return 'selfstr 0 %s %d %d' % (hx(op[1]), op[2], op[3])
    if kind in ('setlist', 'addlist'):
        _, name, typ, vals = op
        if typ == 'float':
            vs = [fhex(v) for v in vals]
        elif typ == 'str':
            vs = [hx(v) for v in vals]
        else:
            vs = [str(int(v)) for v in vals]
        return '%s 0 %s %s %d %s' % (kind, hx(name), typ, len(vals), ' '.join(vs))
    if kind == 'setmulti':
        _, name, strs = op
        return 'setmulti 0 %s %d %s' % (hx(name), len(strs), ' '.join(hx(s) for s in strs))
    if kind == 'setopt':
        _, name, s = op
        return 'setopt 0 %s %s' % (optloc(name), hx(s))
    if kind == 'addtsec':
        return 'addtsec 0 %s %s' % (hx(op[1]), hx(op[2]))
    if kind == 'rmnsec':
        return 'rmnsec 0 %s %d' % (hx(op[1]), op[2])
    if kind == 'rmtsec':
        return 'rmtsec 0 %s %s' % (hx(op[1]), hx(op[2]))
    if kind == 'rmtsecself':
        return 'rmtsec_self 0 %s %d' % (hx(op[1]), op[2])
    if kind == 'rmsec':
        return 'rmsec 0 %s' % hx(op[1])
    raise ValueError(kind)
