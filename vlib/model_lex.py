"""model_lex: reference decoder for one literal, written from the statement of C03.

decode(form, body, env) -> ('ok', value) | ('reject', why) | ('skip', why) | ('unspec', why)
  form: 'dq' | 'sq' | 'uq';  body: latin-1 str (what is between the quotes / the bare word)
  env: dict name -> value (variables that are set)
'skip'   = the body does not form exactly one literal in the framing  name = <literal> NEWLINE  (not judged)
'unspec' = the statement does not fix the outcome (not judged)
"""

# bytes that end an unquoted word (lexer.l, second alternative of the unquoted rule)
UQ_STOP = set(' #"\'\t\n\r={}()+,*')
SIMPLE_ESC = {'n': '\n', 't': '\t', 'r': '\r', 'b': '\b', 'f': '\f', 'a': '\x07', 'e': '\x1b', 'v': '\x0b'}
OCT = '01234567'
DIG = '0123456789'
HEX = '0123456789abcdefABCDEF'


def subst(inner, env):
    """value of ${inner}; returns (value, unspec_reason|None)"""
    name, default = inner, None
    k = inner.find(':')
    if k >= 0:
        if inner[k + 1:k + 2] == '-':
            name, default = inner[:k], inner[k + 2:]
        else:
            return None, 'colon-in-name'
    if '=' in name or '\0' in name:
        return None, 'unsettable-name'
    if name in env:
        if env[name] == '' and default is not None:
            return None, 'set-but-empty-with-default'
        return env[name], None
    if default is not None:
        return default, None
    return '', None


def names_in(body):
    """candidate variable names appearing as ${NAME...} in body (for the harness to set/unset)"""
    out = []
    i = 0
    while True:
        i = body.find('${', i)
        if i < 0:
            break
        j = body.find('}', i + 2)
        if j < 0:
            break
        inner = body[i + 2:j]
        k = inner.find(':')
        name = inner[:k] if k >= 0 and inner[k + 1:k + 2] == '-' else inner
        if name and '=' not in name and '\0' not in name and name not in out:
            out.append(name)
        i = i + 2
    return out


def decode_dq(body, env):
    out = []
    i, n = 0, len(body)
    while i < n:
        c = body[i]
        if c == '"':
            return ('skip', 'inner-quote')
        if c == '$' and body[i + 1:i + 2] == '{':
            j = body.find('}', i + 2)
            if j < 0:
                # '${' with no '}' before the closing quote: whether it is literal text or swallows the
                # quote up to a later '}' depends on the rest of the input - the statement does not say
                return ('unspec', 'unterminated-substitution')
            val, why = subst(body[i + 2:j], env)
            if why:
                return ('unspec', why)
            out.append(val)
            i = j + 1
            continue
        if c != '\\':
            out.append(c)
            i += 1
            continue
        # backslash
        if i + 1 >= n:
            return ('skip', 'backslash-before-closing-quote')
        d = body[i + 1]
        if d == '\n':
            i += 2
            continue
        if d in DIG:
            j = i + 1
            while j < n and body[j] in DIG:
                j += 1
            run = body[i + 1:j]
            if len(run) <= 3 and all(ch in OCT for ch in run):
                v = int(run, 8)
                if v > 0xFF:
                    return ('reject', 'octal>0xFF')
                if v == 0:
                    return ('unspec', 'nul-escape')
                out.append(chr(v))
                i = j
                continue
            return ('reject', 'bad-escape-digits')
        if d == 'x' and body[i + 2:i + 3] in HEX and body[i + 2:i + 3] != '':
            j = i + 2
            while j < n and j < i + 4 and body[j] in HEX:
                j += 1
            v = int(body[i + 2:j], 16)
            if v == 0:
                return ('unspec', 'nul-escape')
            out.append(chr(v))
            i = j
            continue
        if d in SIMPLE_ESC:
            out.append(SIMPLE_ESC[d])
            i += 2
            continue
        out.append(d)
        i += 2
    return ('ok', ''.join(out))


def decode_sq(body, env):
    out = []
    i, n = 0, len(body)
    while i < n:
        c = body[i]
        if c == "'":
            return ('skip', 'inner-quote')
        if c != '\\':
            out.append(c)
            i += 1
            continue
        if i + 1 >= n:
            # backslash escapes the closing quote: the string never terminates in our framing
            return ('reject', 'unterminated')
        d = body[i + 1]
        if d == '\n':
            pass
        elif d in "\\'":
            out.append(d)
        else:
            out.append(c)
            out.append(d)
        i += 2
    return ('ok', ''.join(out))


def decode_uq(body, env):
    if body == '':
        return ('skip', 'empty')
    if body.startswith('${'):
        j = body.find('}')
        if j == len(body) - 1:
            val, why = subst(body[2:j], env)
            if why:
                return ('unspec', why)
            return ('ok', val)
        return ('skip', 'substitution-is-not-the-whole-token')
    if body.startswith('//') or body.startswith('/*'):
        return ('skip', 'comment')
    for ch in body:
        if ch in UQ_STOP:
            return ('skip', 'not-one-word')
    return ('ok', body)


def decode(form, body, env):
    if '\0' in body:
        return ('skip', 'nul-in-source')
    if form == 'dq':
        return decode_dq(body, env)
    if form == 'sq':
        return decode_sq(body, env)
    return decode_uq(body, env)


def render(form, body):
    if form == 'dq':
        return '"' + body + '"'
    if form == 'sq':
        return "'" + body + "'"
    return body


def nontrivial(form, body):
    return any(c in body for c in '\\$"\'\n') or form != 'uq' and body == ''
