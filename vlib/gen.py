"""gen: random schemas, token-level configuration texts derived from a schema, layout rendering.

A text is a list of tokens; a token is [kind, spelling, value]:
  kind: 'name' | '=' | '+=' | '{' | '}' | '(' | ')' | ',' | 'val' | 'title'
  spelling: the bytes that stand for it in the file
  value: for name/val/title the decoded string the lexer must deliver (None otherwise)
Layout (blanks, newlines, comments) is chosen separately by render().
"""
from vlib.schema import D
from vlib.core import F_MULTI, F_LIST, F_NOCASE, F_TITLE, F_NODEFAULT, F_NO_TITLE_DUPES, F_KEYSTRVAL, F_DEPRECATED, F_DROP

WORD_STOP = set(' #"\'\t\n\r={}()+,*$\\')
INTS = [0, 1, -1, 7, 8, 42, 255, -128, 65536, 1000000, -2147483648, 2147483647, 9223372036854775807, -9223372036854775807]
FLOATS = [0.0, 1.5, -2.25, 1000.0, 0.001, 123456.789, -0.5, 3.0, 1e10, 2.5e-3]
STR_ALPHA = list('abcxyzABC019 _-./:') + ['"', '\\', "'", '$', '{', '}', '#', '*', '/', '=', ',', '(', ')', '+', '\n', '\t', '\xe9', '\x01', '\x7f', '\xff', '|']
TITLES = ['a', 'b', 'c', 'web', 'main', 'T', 'two words', 'x=y', 'q"uote', 'back\\slash', "it's", '', 'A', 'B', '${HOME}', '/*c*/', '#h',
          'a-title-that-is-longer-than-thirty-two-bytes-for-sure', 'L' * 70, 'caf\xe9', '\xff\xfe', 'na\xefve title', '\x80', 'tab\there', 'bell\x07']


def word_ok(s):
    return s != '' and not any(c in WORD_STOP for c in s) and not s.startswith('//') and not s.startswith('/*') and '/*' not in s and '//' not in s


def spell_dq(rng, s, fancy=True):
    out = ['"']
    for c in s:
        o = ord(c)
        if c == '"':
            out.append('\\"')
        elif c == '\\':
            out.append('\\\\')
        elif c == '$':
            out.append('\\$')
        elif c == '\n':
            out.append('\\n' if (fancy and rng.random() < 0.5) else '\n')
        elif c == '\t' and fancy and rng.random() < 0.5:
            out.append('\\t')
        elif o < 0x20 or o == 0x7f:
            out.append('\\x%02x' % o)    # (a 3-digit octal escape followed by a digit would be a 4-digit 'bad escape')
        elif fancy and rng.random() < 0.03:
            out.append('\\x%02x' % o)
        elif fancy and rng.random() < 0.02 and c not in 'ntrbfaevx0123456789\n':
            out.append('\\' + c)
        else:
            out.append(c)
    out.append('"')
    return ''.join(out)


def spell_sq(s):
    return "'" + s.replace('\\', '\\\\').replace("'", "\\'") + "'"


def spell_string(rng, s, fancy=True):
    forms = ['dq']
    forms.append('sq')
    if word_ok(s):
        forms += ['uq', 'uq']
    f = rng.choice(forms)
    if f == 'uq':
        return s
    if f == 'sq':
        return spell_sq(s)
    return spell_dq(rng, s, fancy)


def rand_string(rng, maxlen=8, alpha=None):
    n = rng.choice([0, 1, 1, 2, 3, 4, 5, maxlen])
    return ''.join(rng.choice(alpha or STR_ALPHA) for _ in range(n))


def spell_int(rng, n):
    r = rng.random()
    if n >= 0 and r < 0.15:
        return hex(n)
    if n >= 0 and r < 0.25:
        return '0' + oct(n)[2:] if n else '0'
    if n >= 0 and r < 0.3:
        return '0b' + bin(n)[2:]
    if n > 0 and r < 0.35:
        return '+%d' % n
    return str(n)


def rand_value(rng, typ):
    """-> (python value as the model should hold it, decoded token string)"""
    if typ == 'int':
        n = rng.choice(INTS) if rng.random() < 0.7 else rng.randint(-10 ** 6, 10 ** 6)
        return n, spell_int(rng, n)
    if typ == 'float':
        x = rng.choice(FLOATS) if rng.random() < 0.7 else round(rng.uniform(-1000, 1000), 3)
        if rng.random() < 0.2 and x == int(x) and abs(x) < 1e6:
            return float(x), str(int(x))
        return float(x), repr(float(x))
    if typ == 'ptr':
        s = rng.choice(['p1', 'obj', 'x y', 'q'])
        return s, s
    if typ == 'bool':
        w = rng.choice(['true', 'false', 'yes', 'no', 'on', 'off'])
        v = 1 if w in ('true', 'yes', 'on') else 0
        if rng.random() < 0.3:
            w = ''.join(c.upper() if rng.random() < 0.5 else c for c in w)
        return v, w
    s = rand_string(rng)
    return s, s


def val_token(rng, typ, fancy=True):
    v, dec = rand_value(rng, typ)
    if typ in ('str', 'ptr'):
        sp = spell_string(rng, dec, fancy)
    else:
        # ('+' is not a bare-word character: "+7" must be quoted to reach the converter as written)
        sp = dec if (rng.random() < 0.8 and word_ok(dec)) else rng.choice([spell_sq(dec), '"%s"' % dec])
    return ['val', sp, dec], v


# ---- schemas

class SchemaOpts:
    def __init__(self, **kw):
        self.depth = 3
        self.maxopts = 5
        self.types = ['int', 'float', 'bool', 'str']
        self.lists = True
        self.sections = True
        self.funcs = False
        self.nodefault = True
        self.deprecated = False
        self.keystrval = False
        self.title_dupes = True
        self.nocase_names = False
        self.title_single = False
        self.simple = False
        self.null_sub = False
        self.oddnames = False       # declared names that are not plain words (must be quoted in a text)
        self.__dict__.update(kw)


def gen_schema(rng, so=None, depth=0, counter=None):
    so = so or SchemaOpts()
    counter = counter if counter is not None else [0]
    decls = []
    nopt = rng.randint(1 if depth else 2, so.maxopts)
    for _ in range(nopt):
        counter[0] += 1
        k = counter[0]
        r = rng.random()
        if so.sections and depth < so.depth and r < 0.3:
            fl = rng.choice([0, 0, F_MULTI, F_MULTI | F_TITLE, F_MULTI | F_TITLE, F_MULTI | F_TITLE | F_NO_TITLE_DUPES if so.title_dupes else F_MULTI | F_TITLE])
            if so.title_single and rng.random() < 0.1:
                fl = F_TITLE
            if so.nodefault and not (fl & F_MULTI) and rng.random() < 0.15:
                fl |= F_NODEFAULT
            if so.keystrval and rng.random() < 0.2:
                sub = gen_schema(rng, SchemaOpts(**dict(so.__dict__, sections=False, maxopts=2)), depth + 1, counter) if rng.random() < 0.5 else []
                if not sub and so.null_sub and rng.random() < 0.5:
                    sub = None      # CFG_SEC(name, NULL, CFGF_KEYSTRVAL)
                decls.append(D('k%d' % k, 'sec', fl | F_KEYSTRVAL, sub=sub))
            else:
                sname = 's%d' % k
                if so.oddnames and rng.random() < 0.06:
                    sname = rng.choice(['my section %d', 'sec#%d', 'se"c%d']) % k
                decls.append(D(sname, 'sec', fl, sub=gen_schema(rng, so, depth + 1, counter)))
            continue
        if so.funcs and r < 0.36:
            decls.append(D('fn%d' % k, 'func', 0, cbs='F'))
            continue
        t = rng.choice(so.types)
        fl = 0
        if so.lists and rng.random() < 0.35:
            fl |= F_LIST
        if so.nodefault and rng.random() < 0.15:
            fl |= F_NODEFAULT
        if so.deprecated and rng.random() < 0.12:
            fl |= F_DEPRECATED
            if rng.random() < 0.5:
                fl |= F_DROP
        if fl & F_LIST:
            if rng.random() < 0.25:
                dv = None
            else:
                dv = [rand_default(rng, t) for _ in range(rng.randint(0, 3))]
        else:
            dv = rand_default(rng, t)
            if t == 'str' and rng.random() < 0.15:
                dv = None
        name = ('%s%d' % (t[0], k)) if not so.nocase_names else rng.choice(['%s%d', '%sX%d', '%sx%d']) % (t[0].upper() if rng.random() < 0.5 else t[0], k)
        if rng.random() < 0.03:
            name += '_with_a_name_longer_than_thirty_two_bytes'
        if so.oddnames and rng.random() < 0.08:
            name = rng.choice(['allowed hosts %d', 'ports#tcp%d', 'q"uote%d', "it's %d", 'plus+%d', 'br{ace%d', 'star*%d', 'dollar$%d', 'sl//ash%d', 'comma,%d', 'h\xf6he%d', '\xff%d']) % k
        if so.simple and not (fl & F_LIST) and rng.random() < 0.12:
            decls.append(D(name, t, 0, None if t == 'str' else dv, simple=True))
            continue
        decls.append(D(name, t, fl, dv))
    return decls


def rand_default(rng, t):
    if t == 'int':
        return rng.choice([0, 1, 5, -3, 100])
    if t == 'float':
        return rng.choice([0.0, 1.5, -2.0, 0.25])
    if t == 'bool':
        return rng.choice([0, 1])
    return rng.choice(['', 'dflt', 'a b', 'x', 'de"f'])


# ---- texts (token lists) derived from a schema

def gen_items(rng, decls, toks, depth=0, nitems=None, fancy=True, used_titles=None, to=None):
    """append the tokens of a random sequence of items valid for `decls`"""
    to = to or {}
    usable = [d for d in decls if (d.typ != 'ptr' or to.get('ptr')) and not d.simple]
    if not usable:
        return
    n = nitems if nitems is not None else rng.randint(0 if depth else 1, 5)
    titles_here = {}
    for _ in range(n):
        d = rng.choice(usable)
        if to.get('pathnames') and d.typ == 'sec' and not d.is_multi and not (d.flags & (F_NODEFAULT | F_KEYSTRVAL | F_TITLE)) and rng.random() < 0.2:
            # an option of a plain section addressed by path from outside the section
            cand = [x for x in (d.sub or []) if x.typ in ('int', 'float', 'bool', 'str') and not x.simple and '|' not in x.name and '=' not in x.name]
            if cand and word_ok(d.name):
                x = rng.choice(cand)
                sub_toks = []
                gen_items(rng, [x], sub_toks, depth + 1, 1, fancy, to=dict(to, nocase=False))
                if sub_toks and sub_toks[0][0] == 'name' and word_ok(x.name):
                    nm = d.name + '|' + x.name
                    sub_toks[0] = ['name', nm, nm]
                    toks.extend(sub_toks)
                    continue
        name = d.name
        if to.get('nocase') and rng.random() < 0.5:
            name = ''.join((c.upper() if rng.random() < 0.5 else c.lower()) if c.isascii() else c for c in name)
        if d.typ == 'sec':
            toks.append(['name', name if word_ok(name) else spell_string(rng, name, fancy), name])
            if d.flags & F_TITLE:
                pool = to.get('titles') or TITLES
                t = rng.choice(pool)
                if d.flags & F_NO_TITLE_DUPES:
                    seen = titles_here.setdefault(d.name, set())
                    key = t.lower() if to.get('nocase') else t
                    if key in seen:
                        cand = [x for x in pool if (x.lower() if to.get('nocase') else x) not in seen]
                        if not cand:
                            toks.pop()
                            continue
                        t = rng.choice(cand)
                        key = t.lower() if to.get('nocase') else t
                    seen.add(key)
                toks.append(['title', spell_string(rng, t, fancy), t])
            toks.append(['{', '{', None])
            if d.flags & F_KEYSTRVAL:
                gen_keyvals(rng, d, toks, fancy, to)
                if d.sub:
                    gen_items(rng, [x for x in d.sub if x.typ != 'sec'], toks, depth + 1, rng.randint(0, 2), fancy, to=to)
            elif depth < 4:
                gen_items(rng, d.sub or [], toks, depth + 1, None, fancy, to=to)
            toks.append(['}', '}', None])
        elif d.typ == 'func':
            toks.append(['name', name if word_ok(name) else spell_string(rng, name, fancy), name])
            toks.append(['(', '(', None])
            na = rng.randint(0, 3) if rng.random() < 0.95 else rng.choice([15, 16, 17, 18, 33, 70])      # (also across the argument vector's growth steps)
            for i in range(na):
                if i:
                    toks.append([',', ',', None])
                s = rand_string(rng)
                toks.append(['val', spell_string(rng, s, fancy), s])
            toks.append([')', ')', None])
        elif d.is_list:
            toks.append(['name', name if word_ok(name) else spell_string(rng, name, fancy), name])
            op = '+=' if rng.random() < 0.4 else '='
            toks.append([op, op, None])
            if rng.random() < 0.15:
                toks.append(val_token(rng, d.typ, fancy)[0])
            else:
                toks.append(['{', '{', None])
                k = rng.randint(0, 4) if rng.random() < 0.97 else rng.randint(17, 40)
                for i in range(k):
                    if i:
                        toks.append([',', ',', None])
                    toks.append(val_token(rng, d.typ, fancy)[0])
                toks.append(['}', '}', None])
        else:
            toks.append(['name', name if word_ok(name) else spell_string(rng, name, fancy), name])
            toks.append(['=', '=', None])
            toks.append(val_token(rng, d.typ, fancy)[0])


ODD_KEYS = ['a b', 'x#y', 'q"r', 'k+', 'br{ace', 'clo}se', 'two\nlines', 'a,b', 'p(q)', 'sl//ash', 'st/*ar', 'dollar$x', "it's", 'back\\slash', 'tab\there', '\xe9t\xe9', '*', '+=', '${HOME}', 'a|b', 'x=y', 'alpha|z', '|', 'k1=0|x', 'cr\rkey', 'ff\x0ckey', '\x7f', 'nb\xa0sp', '//fileserver/share', '/*star', '/', '//', 'a//b', '#hash', 'end/']


def gen_keyvals(rng, d, toks, fancy, to):
    for _ in range(rng.randint(0, 4)):
        key = rng.choice(['alpha', 'beta', 'gamma', 'k1', 'k2', 'path', 'x.y', 'A', 'etc/app.d', 'a-b:c'])
        if to.get('nocase') and rng.random() < 0.4:
            key = ''.join((c.upper() if rng.random() < 0.5 else c.lower()) if c.isascii() else c for c in key)
        if to.get('oddkeys') and rng.random() < 0.3:
            # free-form keys are whatever the text says: also strings that need quotes to be read back
            key = rng.choice(ODD_KEYS)
            toks.append(['name', spell_string(rng, key, fancy), key])
            toks.append(['=', '=', None])
            s = rand_string(rng)
            toks.append(['val', spell_string(rng, s, fancy), s])
            continue
        toks.append(['name', key, key])
        toks.append(['=', '=', None])
        s = rand_string(rng)
        toks.append(['val', spell_string(rng, s, fancy), s])


def gen_text(rng, decls, fancy=True, to=None):
    toks = []
    gen_items(rng, decls, toks, 0, None, fancy, to=to)
    return toks


# ---- layout

COMMENT_FORMS = ['# c%d', '// c%d', '/* c%d */', '/* c%d\n  more */', '#', '//', '/**/', '#### c%d', '/* * c%d **/']


def render(toks, rng=None, style='plain'):
    """tokens -> text.  Tokens are always separated by layout so that token boundaries are known."""
    out = []
    depth = 0
    for i, t in enumerate(toks):
        k = t[0]
        if k == '}':
            depth = max(0, depth - 1)
        sep = ' '
        if style == 'plain' or rng is None:
            if k == 'name' and i and toks[i - 1][0] not in ('(',):
                sep = '\n' + '  ' * depth
            elif k == '}' and i and toks[i - 1][0] != '{' and _closes_section(toks, i):
                sep = '\n' + '  ' * depth
        else:
            r = rng.random()
            if r < 0.25:
                sep = '\n' + ' ' * rng.randint(0, 3)
            elif r < 0.35:
                sep = '\t'
            elif r < 0.45:
                sep = '  \n\n '
            elif r < 0.5 and k == 'name':
                sep = '\n' + (rng.choice(COMMENT_FORMS[:4]) % i) + '\n'
        if i == 0:
            sep = ''
        out.append(sep)
        out.append(t[1])
        if k == '{':
            depth += 1
    out.append('\n')
    return ''.join(out)


def _closes_section(toks, i):
    """is the '}' at i closing a section (rather than a list)?"""
    d = 0
    for j in range(i - 1, -1, -1):
        k = toks[j][0]
        if k == '}':
            d += 1
        elif k == '{':
            if d == 0:
                return j > 0 and toks[j - 1][0] in ('name', 'title')
            d -= 1
    return False
