#!/usr/bin/env python3
"""Write seeded/SUMMARY.md from the meta.json files."""
import glob, json, os
V = os.path.dirname(os.path.dirname(os.path.abspath(__file__)))
rows = []
for m in sorted(glob.glob(os.path.join(V, 'seeded', '*', 'meta.json'))):
    j = json.load(open(m))
    d = os.path.basename(os.path.dirname(m))
    caught = [c for c, r in j.get('quick_checks', {}).items() if r.get('caught')]
    missed = [c for c, r in j.get('quick_checks', {}).items() if not r.get('caught')]
    keys = []
    for c in caught:
        keys += j['quick_checks'][c].get('keys', [])[:1]
    desc = j.get('summary') or j.get('needs', '').strip().split('\n')[0][:110]
    rows.append('| %s | %s | %s | %s | %s | %s |' % (d, j['property'], desc.replace('|', '/'), ', '.join(caught) or '-', ', '.join(missed) or '-', (keys[0] if keys else '')[:70].replace('|', '/')))
with open(os.path.join(V, 'seeded', 'SUMMARY.md'), 'w') as f:
    f.write('# Seeded changes (written by independent sub-agents, confirmed by tools/confirm_seed.py)\n\n')
    f.write('Each change compiles, passes the repository\'s 24 tests, and makes its demo fail. Quick-tier results of the checks:\n\n')
    f.write('| seed | breaks | change (first line of its README) | caught by | run but silent | first violation key |\n|---|---|---|---|---|---|\n')
    f.write('\n'.join(rows) + '\n')
print('%d seeds' % len(rows))
