#!/usr/bin/env python3
"""setup_cmd: verify the toolchain the checks need is present and the driver builds from /repo."""
import os, shutil, subprocess, sys
sys.path.insert(0, os.path.dirname(os.path.dirname(os.path.abspath(__file__))))
from vlib import core
for tool in ('gcc', 'flex', 'clang'):
    if not shutil.which(tool):
        sys.stderr.write('missing tool: %s\n' % tool)
        sys.exit(1)
b = core.build('asan')
ev, st = core.run_driver(b, 'case 1\nschema 0\n%s\nendschema\ninit 0 0 0\nparse_buf 0 %s\ndump 0\nendcase\n' % (core.opt_line('i', 'int', dnum=1), core.hx('i = 5')))
ok = any(e.get('ev') == 'dump' for e in ev) and st['exit'] == 0
print('selftest', 'ok' if ok else 'FAILED')
sys.exit(0 if ok else 1)
