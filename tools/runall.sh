#!/bin/sh
# tools/runall.sh [tier] : run every claimed check, one line each
tier="${1:-quick}"
cd "$(dirname "$0")/.."
for id in $(python3 -c "import json; print(' '.join(c['property_id'] for c in json.load(open('MANIFEST.json'))['checks']))"); do
  out=$(./check "$id" --tier "$tier" 2>&1); rc=$?
  echo "rc=$rc $(echo "$out" | tail -1)"
  [ $rc -ne 0 ] && echo "$out" | grep -E "^VIOLATION|INCONCLUSIVE|HARNESS" | head -5
done
