#!/usr/bin/env python3
"""tools/recheck_seed.py <seed-dir-name> <check> [<check> ...] [--summary TEXT] [--history TEXT]
Re-run quick checks against an already confirmed seeded change (applied to /repo, undone afterwards) and record the outcome in its meta.json."""
import json, os, re, subprocess, sys
V = os.path.dirname(os.path.dirname(os.path.abspath(__file__)))
args = sys.argv[1:]
opts = {}
for k in ('--summary', '--history'):
    if k in args:
        i = args.index(k)
        opts[k[2:]] = args[i + 1]
        del args[i:i + 2]
seed, checks = args[0], args[1:]
d = os.path.join(V, 'seeded', seed)
meta = json.load(open(os.path.join(d, 'meta.json')))
if checks:
    if subprocess.call(['git', '-C', '/repo', 'apply', os.path.join(d, 'patch.diff')]) != 0:
        sys.exit('patch does not apply')
    try:
        for c in checks:
            p = subprocess.run(['./check', c, '--tier', 'quick'], cwd=V, env=dict(os.environ, VERIF_NO_EVIDENCE='1'), stdout=subprocess.PIPE, stderr=subprocess.STDOUT, text=True)
            keys = re.findall(r'key=(\S+)', p.stdout)
            last = p.stdout.strip().split('\n')[-1]
            first = meta['quick_checks'].get(c)
            if first is not None and not first.get('caught') and 'first_run' not in first:
                keep = dict(first)
            else:
                keep = (first or {}).get('first_run')
            meta['quick_checks'][c] = {'summary': '== %s rc=%d: %s' % (c, p.returncode, last), 'caught': p.returncode == 1, 'keys': keys[:2]}
            if keep:
                meta['quick_checks'][c]['first_run'] = {'summary': keep.get('summary'), 'caught': keep.get('caught')}
            print('%s %s %s %s' % (seed, c, 'CAUGHT' if p.returncode == 1 else 'missed rc=%d' % p.returncode, keys[:2]))
    finally:
        subprocess.call(['git', '-C', '/repo', 'checkout', '--', '.'])
meta.update(opts)
json.dump(meta, open(os.path.join(d, 'meta.json'), 'w'), indent=1)
