#!/usr/bin/env python3
"""Regenerate MANIFEST.json from the table below (claimed checks + not_applicable for the rest)."""
import json, os, subprocess

VERIF = os.path.dirname(os.path.dirname(os.path.abspath(__file__)))

# id -> (level category, technique, level text, level note, design ref)
CLAIMED = {}


def claim(pid, level, technique, text, note, ref=None):
    CLAIMED[pid] = (level, technique, text, note, ref or 'DESIGN.md section 7, ' + pid)


exec(open(os.path.join(VERIF, 'tools', 'claims.py')).read())

props = [json.loads(l) for l in open(os.path.join(VERIF, 'properties.jsonl'))]
checks = []
na = []
for p in props:
    pid = p['id']
    if pid in CLAIMED:
        level, tech, text, note, ref = CLAIMED[pid]
        checks.append({
            'property_id': pid,
            'quick_cmd': './check %s --tier quick' % pid,
            'thorough_cmd': './check %s --tier thorough' % pid,
            'evidence_file': 'evidence/%s.json' % pid,
            'replay_cmd_template': './check %s --replay {path}' % pid,
            'engine': 'vdrv',
            'level_claimed': {'category': level, 'text': text, 'design_ref': ref},
            'level_note': note,
            'technique': tech,
        })
    else:
        na.append({'property_id': pid, 'reason': NOT_YET.get(pid, 'check not built yet in this round; the property is decidable by runtime monitoring (see DESIGN.md) and is not claimed until its check is silent on the repaired tree')})

try:
    hook_commits = subprocess.run(['git', '-C', '/repo', 'log', '--format=%H', '--grep=^verif hook'], stdout=subprocess.PIPE, text=True).stdout.split()
except Exception:
    hook_commits = []

manifest = {
    'version': 1,
    'setup_cmd': 'python3 tools/selftest.py',
    'hooks': {
        'guard': 'LIBCONFUSE_VERIF',
        'enable': 'build/mk.sh compiles /repo/src/{confuse.c,lexer.l} with -DLIBCONFUSE_VERIF and force-includes harness/allocmon.h (-include); no configure step',
        'baseline_off_cmd': 'make -C /repo check',
        'source_commits': hook_commits,
        'add_only': True,
    },
    'engines': [
        {'name': 'vdrv', 'path': 'harness/vdrv.c', 'serves_properties': sorted(CLAIMED),
         'kind_free_text': 'C driver interpreting case scripts against the real library (ASan+UBSan / MSan / plain+valgrind builds, allocmon live-block table, stdout/stdin/fd monitors); Python generators, reference models and judges in vlib/ and checks/'},
    ],
    'checks': checks,
    'not_applicable': na,
    'notes': 'Technique family: runtime monitoring and sanitizers. Every check rebuilds the library from /repo working tree into a private temp dir. See DESIGN.md.',
}
with open(os.path.join(VERIF, 'MANIFEST.json'), 'w') as f:
    json.dump(manifest, f, indent=1)
    f.write('\n')
print('MANIFEST.json: %d checks, %d not_applicable' % (len(checks), len(na)))
