# claims table, exec'd by mkmanifest.py
NOT_YET = {}

claim('C04', 'exploration', 'bounded-exhaustive token enumeration against a reference converter (runtime monitor over real executions, ASan+UBSan build)',
      'Every token up to the length bound over the numeral alphabet, boundary numerals and all boolean spellings are converted by the real library '
      'through parser, cfg_setmulti and cfg_setopt under three ambient errno values; an independent converter written from the statement is the oracle. '
      'Bounded-exhaustive exploration is the right level: the conversion is a pure function of a short token, so enumeration to the bound visits every radix/sign/garbage/range edge.',
      'Trusts: Python int()/float() as exact reference arithmetic; glibc strtod is not re-verified beyond agreement with Python; tokens beyond the bound are only sampled.')

claim('C03', 'exploration', 'bounded-exhaustive literal enumeration against a reference decoder (runtime monitor over real executions, ASan+UBSan build)',
      'Every literal body up to the length bound over 24 byte-class representatives is lexed by the real scanner in double-quoted, single-quoted and bare form '
      '(with trailing comments of every style and inside lists, under four environments) and the stored string is compared with a decoder written from the statement. '
      'The decoding table is a set of overlapping longest-match rules over byte classes, so class-exhaustive enumeration to the bound is the level that reaches every rule interaction.',
      'Trusts: the 24 representatives stand for their byte classes (other bytes of a class are only sampled); bodies the statement leaves open (NUL escapes, unterminated ${) are executed but not judged.')
