# claims table, exec'd by mkmanifest.py
NOT_YET = {}

claim('C04', 'exploration', 'bounded-exhaustive token enumeration against a reference converter (runtime monitor over real executions, ASan+UBSan build)',
      'Every token up to the length bound over the numeral alphabet, boundary numerals and all boolean spellings are converted by the real library '
      'through parser, cfg_setmulti and cfg_setopt under three ambient errno values; an independent converter written from the statement is the oracle. '
      'Bounded-exhaustive exploration is the right level: the conversion is a pure function of a short token, so enumeration to the bound visits every radix/sign/garbage/range edge.',
      'Trusts: Python int()/float() as exact reference arithmetic; glibc strtod is not re-verified beyond agreement with Python; tokens beyond the bound are only sampled.')
