# claims table, exec'd by mkmanifest.py
NOT_YET = {}

claim('C04', 'exploration', 'bounded-exhaustive token enumeration against a reference converter (runtime monitor over real executions, ASan+UBSan build)',
      'Every token up to the length bound over the numeral alphabet, boundary numerals and all boolean spellings are converted by the real library '
      'through parser, cfg_setmulti and cfg_setopt under three ambient errno values; an independent converter written from the statement is the oracle. '
      'Bounded-exhaustive exploration is the right level: the conversion is a pure function of a short token, so enumeration to the bound visits every radix/sign/garbage/range edge.',
      'Trusts: Python int()/float() as exact reference arithmetic; glibc strtod is not re-verified beyond agreement with Python; tokens beyond the bound are only sampled.')

claim('C03', 'exploration', 'bounded-exhaustive literal enumeration against a reference decoder (runtime monitor over real executions, ASan+UBSan build)',
      'Every literal body up to the length bound over 24 byte-class representatives is lexed by the real scanner in double-quoted, single-quoted and bare form '
      '(with trailing comments of every style and inside lists, under four environments) and the stored string is compared with a decoder written from the statement. '
      'The decoding table is a set of overlapping longest-match rules over byte classes, so class-exhaustive enumeration to the bound is the level that reaches every rule interaction.',
      'Trusts: the 24 representatives stand for their byte classes (other bytes of a class are only sampled); bodies the statement leaves open (NUL escapes, unterminated ${) are executed but not judged.')

claim('C09', 'exploration', 'bounded-exhaustive call-sequence enumeration checked against an executable reference store after every call (history + model monitor, ASan+UBSan build)',
      'All call sequences to the depth bound over the call alphabet (84 core calls enumerated to depth 3; about 60 more - simple options, odd / empty / long titles, NULL and long strings, far indices, self-owned titles - to depth 2 and sampled at depth 3) (every setter family, list set/append, bulk set good/bad, section add/remove by index/title/path, '
      'wrong-type / bad-index / unknown-name calls) from the initial and five parsed states (one with 40 list elements and 42 sections, one with 1022 list elements) run against the real library; after every call the return value and the whole '
      'tree are compared with a 150-line abstract store. Order-dependent interactions (first append on pristine defaults, remove then add) need sequence enumeration, which is this level.',
      'Trusts: the abstract store (model_store.py) as the reading of the statement; unspecified calls (index gaps, setmulti of several values on a scalar, addtsec on untitled sections) end the judged prefix.')

claim('C10', 'fault_enumeration', 'complete enumeration of (option kind x prepared state x refusing call x failing position) with before/after snapshot equality (invariant at the API boundary, ASan+UBSan build)',
      'Every refusing call of the statement is issued against every prepared option state with the offending element / failing callback at every position; the oracle needs no model: '
      'the call must report failure and the full dump (values, order, annotation, RESET/MODIFIED/COMMENTS bits) must be identical before and after. The space is finite and is enumerated completely.',
      'Trusts: the dump walks everything the statement names (values, count, order, annotation, marker bits) through public accessors and public struct fields.')

claim('C11', 'exploration', 'random trees x generated and systematically broken paths; by-path API compared with a C walk using single-level accessors only (differential monitor on real executions, ASan+UBSan build, hang watchdog)',
      'For random trees (titles with | \' \\ = blanks, empty title) every option/section is addressed through generated path strings in all qualifier forms and the pointer returned by '
      'cfg_getopt/cfg_getsec is compared (by position) with step-by-step navigation; by-path setters and cfg_rmsec must change exactly that object; 16 classes of broken paths must yield '
      'not-found, terminate and change nothing. The path mini-language is small but has its own tokenizer; randomised trees with systematic path derivation is the level that reaches its corners.',
      'Trusts: the generator\'s knowledge of which broken variants cannot resolve (names with a suffix that does not exist, indices >= size, ...); trees are random, not exhaustive.')

claim('C05', 'exploration', 'metamorphic print->parse->print relations between executions of the real code on random schemas and states (no model; ASan+UBSan build)',
      'States are produced by random accepted texts followed by random setter sequences (strings and titles over all bytes 1..255, forced quotes, backslashes, $, braces, comment markers, '
      'newlines); the printed text must be accepted by a fresh context of the same schema and give an equal tree, the second print must equal the first (annotations off) and the third the second. '
      'Both sides of every comparison are the library itself, so the oracle cannot be stricter than the code; randomised exploration is the level because the state space is unbounded.',
      'Trusts: the tree comparison (strings bytewise, ints/bools exact, floats after %f); states excluded by the statement are not generated (functions, pointers, deprecated options, removed single sections, NULL over a non-NULL string default).')

claim('C19', 'exploration', 'structural scan of the printed text against the tree walk plus self-similarity (section body == print of that section) and callback-differential relations on real executions (ASan+UBSan build)',
      'For random schemas/states, filters (name-hash predicates) at random subsets of section instances and print callbacks on random options, the output of cfg_print is scanned into '
      '(depth, name) records and compared with the options the effective filter accepts - exactly once, declaration order, right depth, unset scalars commented; every sampled section body '
      'must equal cfg_print_indent of that instance under the effective filter; callbacks may change only their own option\'s value text. Random exploration of schemas x filter placements is the fitting level.',
      'Trusts: the line scanner (values are drawn from an alphabet that keeps one record per line); the effective-filter rule (own, else nearest ancestor) is taken from the statement.')

claim('C15', 'exploration', 'metamorphic insertion: every token boundary x every comment/blank form, result compared with the uncommented run of the real code; annotation probes (ASan+UBSan build)',
      'For accepted and token-mutated rejected texts, each of 25 comment/blank forms (incl. empty, marker-only, multi-line, comments full of quotes/braces) is inserted at every token boundary with annotation '
      'support on and off; return code and a hash of the values-only tree must equal the uncommented run. Annotation probes check getter, print and re-parse for comments placed immediately before scalar '
      'and non-empty list assignments. The law is metamorphic over insertion points, so exhaustive insertion over sampled texts is the fitting level.',
      'Trusts: the values-only tree hash computed in the driver through public getters; annotation probes cover top-level items only.')

claim('C08', 'exploration', 'bounded-exhaustive history enumeration, one process per history, probe results compared with their fresh-process results (differential monitor; scanner-state hook for evidence)',
      'All histories to the length bound over 30 prior events (every kind of aborted parse, include failures at depth 1/3/limit, range failures, root free/re-init, second context), each in its own '
      'process, are followed by 15 probe parses into contexts untouched by the history; return code, full tree and diagnostics (file, line, text) must equal the probe\'s result in a fresh process. '
      'Interleavings over two live contexts are compared with solo runs. The property is about orderings of calls over process-global scanner state, which only history enumeration reaches.',
      'Trusts: the probe set as a detector of residual state (start condition, buffer stack, include stack, scratch buffer, errno); the residual states actually reached are listed in the evidence via the LIBCONFUSE_VERIF hook.')

claim('C13', 'exploration', 'flat-vs-include-split differential on the real code over generated file trees, position probes, and an enumerated failure matrix with descriptor/include-depth monitors (ASan+UBSan build)',
      'Accepted texts are split at item boundaries (also inside section bodies) into random include trees of depth 1..10, addressed relative, absolute or via search path, and must parse to the same tree as the flat text '
      'with include depth 0 and descriptors balanced afterwards; errors placed after / inside includes must carry the right file and line; 18 kinds of failing include, 12+ in a row, must each be a reported parse error '
      'without descriptor growth, after which a good include into the same and a new context still works. Randomised differential exploration plus an enumerated failure matrix is the level that fits: the input space is unbounded, the failure kinds are few.',
      'Trusts: /proc/self/fd counting and the allocmon FILE table as descriptor monitors; no permission-based failures (root).')

claim('C12', 'exploration', 'metamorphic with/without relation on the real code: generated unknown items inserted at every item boundary of accepted texts, compared by return code, values-only tree hash and diagnostic count; nesting ladder for the stack bound',
      'For accepted texts, a recursive generator of undeclared items (assignment, list, append, call, plain/titled sections that are empty or end in a scalar/list/call and contain known names) is inserted at every boundary '
      'at every depth and in multi-insertions; under ignore-unknown nothing observable may change and no diagnostic may appear, without the flag the text must be rejected with a diagnostic; unknown sections nested 10^2..10^5 deep must be skipped. '
      'The relation is metamorphic over insertion points and item shapes, which randomised systematic insertion explores.',
      'Trusts: the values-only tree hash; unknown items are well-formed by construction.')

claim('C17', 'exploration', 'bounded-exhaustive search-path sequences x name forms against a reference resolver evaluated on a real fixture tree; same workload on ASan+UBSan, MemorySanitizer and valgrind memcheck builds',
      'All search-path sequences to the length bound over a 13-directory pool (existing, missing, duplicate, tilde-prefixed, absolute, symlinked, literal ~nouser) are combined with names placed as file / directory / symlink / '
      'dangling link / absent and with every tilde form; cfg_searchpath and cfg_tilde_expand results are compared with model_fs, and cfg_parse(name) / include(name) must load the file the model names (distinct markers). '
      'The memory clause ("never depends on uninitialised memory") is decided by MemorySanitizer and memcheck on the same executions. Bounded enumeration fits: precedence and file-vs-directory discrimination are order effects over few directories.',
      'Trusts: Python os.path.isfile / pwd as the reference for "regular file" and the passwd database; MSan sees only the reads these workloads perform.')

claim('C16', 'exploration', 'AddressSanitizer on poisoned-and-freed declaration memory plus twin/invariance differentials on real executions (two contexts from one declaration, sibling section instances)',
      'Right after cfg_init every declaration array and string is overwritten and freed, so any later read of caller memory is an ASan use-after-free; the poisoned context is then driven through texts that create '
      'the 1st..4th instance of nested multi sections, setters and prints and must end equal to an unpoisoned twin. For sharing, each operation (parse adding free-form keys, setter, annotation, print callback, validator) is '
      'applied to one context / one section instance and the untouched one must keep an identical dump and print. Random schemas with deep nesting are the right level: a missed field in the deep copy shows only for particular shapes.',
      'Trusts: ASan quarantine keeps freed declaration memory unreused for the duration of a case; "simple" options are shared by design and excluded.')

claim('C07', 'fault_enumeration', 'systematic error-point enumeration (cut / corrupt at every token position, k-th callback failure, errors inside included files) and API histories under AddressSanitizer, an allocation live-table, LeakSanitizer, descriptor and release-callback balance monitors',
      'Every token position of rich base texts (lists, calls with 0-3 arguments, nested/titled/key=value sections, includes 1-3 deep, pointer options, annotations, search path) is an abort point twice, every callback invocation fails once, '
      'every token of every included file is an abort point, and all API histories to the depth bound run; after cfg_free the library-allocation live table must be empty, LeakSanitizer silent, descriptors and FILE handles balanced and every '
      'pointer value released exactly once, with ASan watching for double free / use after free throughout. Ownership bugs are path-specific, so enumerating abort points is the level that reaches them.',
      'Trusts: allocmon sees all allocations of confuse.c and the generated lexer; libc-internal allocations only through LeakSanitizer; base texts are a finite hand-built + random set.')

claim('C18', 'fault_enumeration', 'exhaustive single-fault injection: for each of 18 workloads every k-th allocation request of confuse.c fails once (force-included failable allocator), one process per (workload, k), judged by exit status, AddressSanitizer, live-block table and continued usability',
      'The fault-free run of each workload records the ordered list of allocation requests issued by the library source proper; then every single one of them is made to fail in its own process. A run must not abort or crash, later calls must still work '
      '(dump, print, parse, free) and no library block may remain allocated. The unwind code of ~60 allocation sites is dead unless a fault is injected at exactly that site, so exhaustive enumeration over k is the level; it is complete for these workloads.',
      'Trusts: the workloads as a cover of the public entry points; scanner-internal allocations are out of scope by the property; one fault per run. Known finding: abort() in cfg_init_defaults under OOM (listed in known_findings.json).')

claim('C01', 'exploration', 'exhaustive short token sequences + random schemas/texts/mutations executed by the real parser and compared, tree by tree, with a token-level reference interpreter (history + executable model monitor, ASan+UBSan build)',
      'Every token sequence to the length bound over a 14-symbol alphabet reaches every (parser state, token kind) pair of the language states; random schemas over all flag combinations x case-insensitive contexts x grammar-derived texts with random '
      'spellings/layout, their token-mutated forms and multi-text sequences cover the unbounded part. Accept/reject must agree with model_lang and after acceptance the whole tree walk must equal the model. '
      'The parser is a hand-written state machine, so systematic token enumeration plus randomised schema exploration is the level that reaches its per-state token handling.',
      'Trusts: model_lang.py (280 lines) as the reading of the language; unspecified corners (trailing commas, path-like names, TITLE without MULTI) are executed but not judged.')

claim('C06', 'fault_enumeration', 'error injection at token positions of generated texts with generator-side position bookkeeping; the real diagnostics (file, line, count) are compared with the expected position decided by the reference interpreter',
      'Valid texts over random schemas get one injected error (unknown name, unconvertible value, wrong token, premature end) and are laid out with every comment style, blank lines, CRLF, multi-line quoted strings, continuations and up to two '
      'include levels; the generator knows the file and end line of every token, model_lang says at which token the text must be rejected, and every diagnostic of the failed parse must name exactly that file and line; accepted texts must '
      'deliver no diagnostic at all. Line bookkeeping is spread over a dozen lexer actions and only wrong for particular construct sequences, so layout-randomised error-point enumeration is the fitting level.',
      'Trusts: model_lang for the rejection point (cases where model and library disagree on accept/reject are C01\'s and are not judged here); the layout generator\'s own newline counting.')

claim('C14', 'fault_enumeration', 'trace conformance: the callback invocation log of the real parser is aligned with the trace of the reference interpreter, then every single invocation is made to fail once and the resulting tree compared with the interpreter state at that point',
      'Random schemas put parse / validation / function callbacks (declared or registered by path, also inside multi sections) on random subsets of options; the fault-free run must produce the reference trace (decoded texts, order, stored products, '
      'validation after every stored value before any later item), and for every k the k-th invocation returns failure: the parse must fail there, no further callback may run and the tree must equal the interpreter state. Pre-set validators are checked '
      'for accept / rewrite / veto. "For all choices of which single invocation fails" is a fault enumeration over the trace.',
      'Trusts: model_lang for the expected trace; additional validation calls on an unchanged option are tolerated; callbacks on list options with declared defaults are not generated (the library parses those defaults through the callbacks at instantiation).')

claim('C02', 'exploration', 'coverage-guided fuzzing (libFuzzer + ASan/UBSan with stdout/stdin/return-code/usability monitors), enumerated pathological shapes through the driver (ASan and plain builds, hang watchdog), generated and mutated texts under MemorySanitizer and valgrind memcheck',
      'Robustness is a statement about all byte strings, so the oracle is the instrumentation itself: sanitizer reports, signals, process exit (caught by libFuzzer), hangs (watchdog with solitary re-run), bytes on a captured stdout, reads of a sentinel stdin, '
      'and the post-parse usability steps (walk, print, parse again, free). Reach comes from coverage guidance over four entry points x eight flag sets, from ~90 classes of hand-enumerated hostile shapes (huge tokens to 16 MiB, nesting ladders to 10^5, '
      'every unterminated construct, NULs, directories / dangling / looping links / self-include as targets) and from mutated grammar texts on MSan/valgrind. Exploration is the honest level: the evidence reports executions, coverage features and corpus size.',
      'Trusts: the sanitizers (a clean run is not a proof: red-zone tools miss non-adjacent overflows); fuzz inputs naming /dev, /proc or /sys paths are skipped; token sizes above 256 KiB run without ASan because of the scanner\'s 32-byte buffer growth.')
