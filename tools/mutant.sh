#!/bin/sh
# tools/mutant.sh <patch.diff> <prop> [<prop> ...]   apply a seeded change to /repo, run the quick checks, undo it
patch="$1"; shift
git -C /repo apply "$patch" || { echo "patch does not apply"; exit 2; }
trap 'git -C /repo checkout -- .' EXIT INT TERM
for p in "$@"; do
  out=$(cd /verif && VERIF_NO_EVIDENCE=1 ./check "$p" --tier quick 2>&1); rc=$?
  echo "== $p rc=$rc: $(echo "$out" | grep -c '^VIOLATION') violation lines; $(echo "$out" | tail -1)"
  echo "$out" | grep -A1 '^VIOLATION' | head -6
done
