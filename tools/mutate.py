#!/usr/bin/env python3
"""tools/mutate.py <n> [seed] [workdir]  - mutation screening of the checks.

Generates n random single-line mutants of src/confuse.c / src/lexer.l in a scratch copy of the repository, keeps those
that still compile and pass the repository's 24 tests, and runs the quick checks (thinned with VERIF_SCALE) against each.
Survivors (no check fired) are listed for manual triage: each is either an equivalent mutant or a gap.
Writes <workdir>/report.txt.  Never touches /repo.
"""
import os, random, re, shutil, subprocess, sys, time

VERIF = os.path.dirname(os.path.dirname(os.path.abspath(__file__)))
REPO = os.environ.get('VERIF_REPO', '/repo')
ORDER = ['C10', 'C19', 'C12', 'C04', 'C14', 'C16', 'C13', 'C05', 'C18', 'C07', 'C06', 'C03', 'C01', 'C17', 'C08', 'C15', 'C11', 'C09']


def sh(cmd, cwd=None, timeout=3600, env=None):
    p = subprocess.run(cmd, shell=True, cwd=cwd, stdout=subprocess.PIPE, stderr=subprocess.STDOUT, text=True, timeout=timeout, env=env)
    return p.returncode, p.stdout


def candidates(path):
    out = []
    lines = open(path, encoding='latin-1').read().split('\n')
    skip = False
    for i, ln in enumerate(lines):
        st = ln.strip()
        if st.startswith('#ifdef LIBCONFUSE_VERIF'):
            skip = True
        if st.startswith('#ifndef HAVE_'):      # replacement functions that are not compiled here
            skip = True
        if skip:
            if st.startswith('#endif'):
                skip = False
            continue
        if not st or st.startswith(('#', '/*', '*', '//', '%')) or i < 60:
            continue
        code = re.sub(r'"(\\.|[^"\\])*"', '""', ln)      # do not mutate inside string literals
        for a, b in (('==', '!='), ('!=', '=='), ('&&', '||'), ('||', '&&'), ('<=', '<'), ('>=', '>')):
            if a in code:
                out.append((i, 'swap %s -> %s' % (a, b), ln.replace(a, b, 1)))
        m = re.search(r'[^-<>=!]([<>])[^<>=]', code)
        if m and '->' not in code[m.start():m.end() + 1] and 'include' not in code:
            c = m.group(1)
            k = m.start(1)
            out.append((i, 'swap %s -> %s=' % (c, c), ln[:k] + c + '=' + ln[k + 1:]))
        for a in (' + 1', ' - 1'):
            if a in code:
                out.append((i, 'drop "%s"' % a.strip(), ln.replace(a, '', 1)))
        if re.match(r'^\s+if \(!', ln):
            out.append((i, 'drop !', ln.replace('(!', '(', 1)))
        if re.match(r'^\s+(free\(|cfg_\w+\(|[\w\->\.\[\]\*]+\s*(=|\|=|&=|\+=|-=)\s*[^=]|[\w\->\.\[\]]+(\+\+|--);|\+\+|--|BEGIN\(|qputc\()', ln) and st.endswith(';') and not st.startswith(('return', 'int ', 'char ', 'unsigned', 'cfg_t ', 'cfg_opt_t', 'long', 'double', 'const', 'size_t', 'FILE', 'va_list', 'struct', 'void')):
            out.append((i, 'delete statement', re.match(r'^\s*', ln).group(0) + ';'))
        m = re.match(r'^(\s+)return (0|1|-1|NULL|CFG_SUCCESS|CFG_FAIL|CFG_PARSE_ERROR);', ln)
        if m:
            alt = {'0': '1', '1': '0', '-1': '0', 'NULL': 'NULL /*same*/', 'CFG_SUCCESS': 'CFG_FAIL', 'CFG_FAIL': 'CFG_SUCCESS', 'CFG_PARSE_ERROR': 'CFG_SUCCESS'}[m.group(2)]
            if 'same' not in alt:
                out.append((i, 'return %s -> %s' % (m.group(2), alt), ln.replace('return ' + m.group(2), 'return ' + alt, 1)))
    return lines, out


def main():
    n = int(sys.argv[1])
    seed = int(sys.argv[2]) if len(sys.argv) > 2 else 1
    work = sys.argv[3] if len(sys.argv) > 3 else '/tmp/mutwork%d' % seed
    rng = random.Random(seed)
    shutil.rmtree(work, ignore_errors=True)
    os.makedirs(work)
    sh('cp -a %s %s/repo && cd %s/repo && git checkout -q -- . && make -s' % (REPO, work, work))
    repo = work + '/repo'
    allc = []
    for f in ('src/confuse.c', 'src/lexer.l'):
        lines, c = candidates(os.path.join(repo, f))
        allc += [(f, i, d, new) for i, d, new in c]
    rng.shuffle(allc)
    only = os.environ.get('MUT_ONLY')          # "src/confuse.c:1115,src/lexer.l:182": re-screen just these lines (use MUT_SCALE=1)
    if only:
        want = set(only.split(','))
        allc = [c for c in allc if '%s:%d' % (c[0], c[1] + 1) in want]
    rep = open(os.path.join(work, 'report.txt'), 'w')
    rep.write('%d candidate mutants; screening %d (seed %d)\n' % (len(allc), n, seed))
    stats = {'compile-fail': 0, 'killed-by-tests': 0, 'killed-by-checks': 0, 'survived': 0}
    done = 0
    for f, i, desc, new in allc:
        if done >= n:
            break
        path = os.path.join(repo, f)
        orig = open(path, encoding='latin-1').read()
        lines = orig.split('\n')
        old = lines[i]
        if new == old:
            continue
        lines[i] = new
        open(path, 'w', encoding='latin-1').write('\n'.join(lines))
        tag = '%s:%d %s | %s' % (f, i + 1, desc, old.strip()[:90])
        try:
            try:
                rc, out = sh('make -s 2>&1 | tail -3; timeout 300 make check 2>&1 | grep -E "^# (PASS|FAIL|ERROR)"', cwd=repo, timeout=900)
            except subprocess.TimeoutExpired:
                out = '# PASS: hang'
            if 'PASS' not in out and 'lexer' in f or 'hang' in out:
                pass
            if '# PASS:' not in out:
                stats['compile-fail'] += 1
                continue
            done += 1
            if '# PASS:  24' not in out or '# FAIL:  0' not in out:
                stats['killed-by-tests'] += 1
                rep.write('TESTS   %s\n' % tag)
                rep.flush()
                continue
            pre = os.path.join(work, 'pre')
            shutil.rmtree(pre, ignore_errors=True)
            os.makedirs(pre)
            procs = [subprocess.Popen(['sh', os.path.join(VERIF, 'build', 'mk.sh'), v, os.path.join(pre, v), repo], stdout=subprocess.DEVNULL, stderr=subprocess.DEVNULL) for v in ('asan', 'plain', 'msan')]
            ok = all(p.wait() == 0 for p in procs)
            if not ok:
                stats['compile-fail'] += 1
                continue
            env = dict(os.environ, VERIF_REPO=repo, VERIF_PREBUILT=pre, VERIF_SCALE=os.environ.get('MUT_SCALE', '0.2'), VERIF_NO_EVIDENCE='1')
            killer = None
            t0 = time.time()
            for c in ORDER:
                try:
                    rc, out = sh('./check %s --tier quick' % c, cwd=VERIF, env=env, timeout=1500)
                except subprocess.TimeoutExpired:
                    rc, out = 1, 'timeout'
                if rc == 1:
                    k = re.findall(r'key=(\S+)', out)
                    killer = '%s %s' % (c, k[0] if k else '')
                    break
            if killer:
                stats['killed-by-checks'] += 1
                rep.write('KILLED  %s  <- %s (%.0fs)\n' % (tag, killer[:80], time.time() - t0))
            else:
                stats['survived'] += 1
                rep.write('SURVIVED %s  => %s (%.0fs)\n' % (tag, new.strip()[:90], time.time() - t0))
            rep.flush()
        finally:
            open(path, 'w', encoding='latin-1').write(orig)
    rep.write('summary %r\n' % stats)
    rep.close()
    print(stats)
    shutil.rmtree(os.path.join(work, 'repo'), ignore_errors=True)
    shutil.rmtree(os.path.join(work, 'pre'), ignore_errors=True)


if __name__ == '__main__':
    main()
