#!/usr/bin/env python3
"""tools/seed_regress.py [pattern]  - every seeded change recorded as caught must still be caught by the current checks.
Works on a scratch copy of the repository (never /repo); prints one line per seed and a summary; exit 1 if a seed that was caught is now missed."""
import fnmatch, glob, json, os, re, shutil, subprocess, sys
V = os.path.dirname(os.path.dirname(os.path.abspath(__file__)))
pat = sys.argv[1] if len(sys.argv) > 1 else '*'
work = '/tmp/seedregress_%d' % os.getpid()
shutil.rmtree(work, ignore_errors=True)
subprocess.check_call('mkdir -p %s && cp -a /repo %s/repo && git -C %s/repo checkout -q -- .' % (work, work, work), shell=True)
repo = work + '/repo'
lost = []
n = 0
try:
    for m in sorted(glob.glob(os.path.join(V, 'seeded', '*', 'meta.json'))):
        d = os.path.dirname(m)
        name = os.path.basename(d)
        if not fnmatch.fnmatch(name, pat):
            continue
        meta = json.load(open(m))
        checks = [c for c, r in meta.get('quick_checks', {}).items() if r.get('caught')]
        if not checks:
            print('%-10s (recorded as not caught: %s)' % (name, (meta.get('history') or '')[:80]))
            continue
        if meta.get('applies_to_head') is False:
            print('%-10s (written against an earlier HEAD; see stale_note)' % name)
            continue
        if subprocess.call(['git', '-C', repo, 'apply', os.path.join(d, 'patch.diff')]) != 0:
            print('%-10s patch does not apply any more' % name)
            continue
        n += 1
        for c in checks[:1]:
            p = subprocess.run(['./check', c, '--tier', 'quick'], cwd=V, env=dict(os.environ, VERIF_NO_EVIDENCE='1', VERIF_REPO=repo), stdout=subprocess.PIPE, stderr=subprocess.STDOUT, text=True)
            keys = re.findall(r'key=(\S+)', p.stdout)
            print('%-10s %s %s %s' % (name, c, 'caught' if p.returncode == 1 else 'LOST rc=%d' % p.returncode, keys[:1]), flush=True)
            if p.returncode != 1:
                lost.append((name, c))
        subprocess.call(['git', '-C', repo, 'checkout', '-q', '--', '.'])
finally:
    shutil.rmtree(work, ignore_errors=True)
print('%d seeds re-run, %d lost: %r' % (n, len(lost), lost))
sys.exit(1 if lost else 0)
