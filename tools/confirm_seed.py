#!/usr/bin/env python3
"""tools/confirm_seed.py <PROP> <n> [checks...]

Take the seeded change a sub-agent left in /tmp/wt_<PROP>/seeded_out/<n>/, confirm it independently in a scratch copy of
/repo (patch applies, library builds, `make check` passes 24/24, demo passes without and fails with the change), run the
quick checks against it (apply to /repo, run, undo) and store it as /verif/seeded/<PROP>-<n>/ with meta.json.
"""
import json, os, re, shutil, subprocess, sys, tempfile

VERIF = os.path.dirname(os.path.dirname(os.path.abspath(__file__)))


def sh(cmd, cwd=None, timeout=1800, env=None):
    p = subprocess.run(cmd, shell=True, cwd=cwd, stdout=subprocess.PIPE, stderr=subprocess.STDOUT, text=True, timeout=timeout, env=env)
    return p.returncode, p.stdout


def main():
    prop, n = sys.argv[1], sys.argv[2]
    checks = sys.argv[3:] or [prop]
    src = '/tmp/wt_%s/seeded_out/%s' % (prop, n)
    patch = os.path.join(src, 'patch.diff')
    if not os.path.exists(patch):
        print('no patch at', patch)
        return 2
    readme = open(os.path.join(src, 'README.txt'), errors='replace').read() if os.path.exists(os.path.join(src, 'README.txt')) else ''
    # compile flags for the demo: look for a gcc line in the README
    m = re.search(r'gcc[^\n]*demo\.c[^\n]*', readme)
    flags = ''
    if m and '-fsanitize=address' in m.group(0):
        flags = '-fsanitize=address -g'
    extra = ''
    if m:
        for tok in m.group(0).split():
            if tok.startswith(('-Wl,', '-D', '-l', '-pthread')):
                extra += ' ' + tok
    scratch = tempfile.mkdtemp(prefix='verif_confirm_')
    meta = {'property': prop, 'source': 'sub-agent (%s) for %s, change %s' % (os.environ.get('SEED_TAG', 'round 1'), prop, n)}
    pre = os.environ.get('SEED_PRECONFIRMED')
    try:
        if pre:
            # confirmed by hand in a scratch copy with the special build recipe of the demo (recorded verbatim)
            meta.update({'confirmed': True, 'confirmed_by_hand': pre})
            raise StopIteration
        rc, out = sh('cp -a /repo %s/r && cd %s/r && git checkout -q -- . && git status --short | grep -v "^??" | head' % (scratch, scratch))
        r = scratch + '/r'
        demo_src = os.path.join(src, 'demo.c')
        others = [f for f in os.listdir(src) if f.endswith(('.c', '.h')) and f != 'demo.c']

        def build_demo():
            cmd = 'gcc %s -I src -I %s %s src/.libs/libconfuse.a -o %s/demo %s 2>&1 | tail -5' % (flags, src, demo_src, scratch, extra)
            return sh(cmd, cwd=r)

        def run_demo():
            env = dict(os.environ, ASAN_OPTIONS='detect_leaks=1:abort_on_error=0')
            try:
                rc, out = sh('%s/demo' % scratch, cwd=scratch, timeout=120, env=env)
            except subprocess.TimeoutExpired:
                return 124, 'timeout'
            return rc, out[-600:]
        rc, out = sh('make -s 2>&1 | tail -3', cwd=r)
        rc, out = build_demo()
        meta['demo_build_clean'] = out[-300:]
        if not os.path.exists(scratch + '/demo'):
            print('DEMO DOES NOT BUILD:', out[-500:])
            return 1
        rc0, out0 = run_demo()
        meta['demo_on_clean_tree'] = rc0
        rc, out = sh('git apply %s' % patch, cwd=r)
        meta['patch_applies'] = rc == 0
        if rc != 0:
            print('PATCH DOES NOT APPLY', out[-300:])
            return 1
        rc, out = sh('make -s 2>&1 | tail -3; make check 2>&1 | grep -E "^# (PASS|FAIL|ERROR)"', cwd=r)
        meta['make_check_with_change'] = ' '.join(out.split('\n')[-4:]).strip()
        ok_tests = '# PASS:  24' in out and '# FAIL:  0' in out
        rc, out = build_demo()
        rc1, out1 = run_demo()
        meta['demo_with_change'] = rc1
        meta['demo_output_with_change'] = out1[-300:]
        confirmed = ok_tests and rc0 == 0 and rc1 != 0
        meta['confirmed'] = confirmed
        print('%s-%s: tests_pass=%s demo_clean=%s demo_changed=%s -> %s' % (prop, n, ok_tests, rc0, rc1, 'CONFIRMED' if confirmed else 'NOT CONFIRMED'))
        if not confirmed:
            print(json.dumps(meta, indent=1)[-1500:])
            return 1
    except StopIteration:
        pass
    finally:
        shutil.rmtree(scratch, ignore_errors=True)
    # run our checks against it
    results = {}
    for c in checks:
        rc, out = sh('%s/tools/mutant.sh %s %s' % (VERIF, patch, c), cwd=VERIF, timeout=7200)
        line = [l for l in out.split('\n') if l.startswith('== ')]
        keys = re.findall(r'key=(\S+)', out)
        results[c] = {'summary': line[0] if line else out[-200:], 'caught': bool(line and 'rc=1' in line[0]), 'keys': keys[:4]}
        print('   ', c, 'CAUGHT' if results[c]['caught'] else 'missed', keys[:2])
    meta['quick_checks'] = results
    meta['needs'] = readme[:1500]
    tag = os.environ.get('SEED_TAG')
    dst = os.path.join(VERIF, 'seeded', '%s-%s%s' % (prop, (tag + '-') if tag else '', n))
    os.makedirs(dst, exist_ok=True)
    for f in os.listdir(src):
        if os.path.isfile(os.path.join(src, f)) and os.path.getsize(os.path.join(src, f)) < 200000 and not f.endswith(('.o', '.a')) and f != 'demo':
            shutil.copy(os.path.join(src, f), os.path.join(dst, f))
    meta['what_was_run'] = 'scratch copy of /repo: git apply patch.diff; make; make check (24 PASS); demo built against src/.libs/libconfuse.a with and without the change; then tools/mutant.sh patch.diff ' + ' '.join(checks)
    with open(os.path.join(dst, 'meta.json'), 'w') as f:
        json.dump(meta, f, indent=1)
    return 0


if __name__ == '__main__':
    sys.exit(main())
