#!/bin/sh
# mk.sh <variant> <outdir> [repo]
# Build the driver + libconfuse (from the working tree of the repository) into
# <outdir>.  lexer.c is always regenerated from lexer.l; config.h is private.
set -e
variant="$1"; out="$2"; repo="${3:-/repo}"
here="$(cd "$(dirname "$0")/.." && pwd)"
[ -n "$variant" ] && [ -n "$out" ] || { echo "usage: mk.sh <variant> <outdir> [repo]" >&2; exit 2; }
mkdir -p "$out/src"
cp "$repo"/src/confuse.c "$repo"/src/confuse.h "$repo"/src/compat.h "$repo"/src/lexer.l "$out/src/"
cat > "$out/src/config.h" <<'EOF'
/* private config.h of the verification build (equivalent to the configured one, NLS off) */
#define HAVE_FMEMOPEN 1
#define HAVE_REALLOCARRAY 1
#define HAVE_SETENV 1
#define HAVE_STRCASECMP 1
#define HAVE_STRDUP 1
#define HAVE_STRNDUP 1
#define HAVE_STRINGS_H 1
#define HAVE_STRING_H 1
#define HAVE_SYS_STAT_H 1
#define HAVE_SYS_TYPES_H 1
#define HAVE_UNISTD_H 1
#define HAVE_UNSETENV 1
#define PACKAGE "confuse"
#define PACKAGE_NAME "libConfuse"
#define PACKAGE_STRING "libConfuse verif"
#define PACKAGE_VERSION "verif"
#define VERSION "verif"
#define LOCALEDIR "/nonexistent"
EOF
( cd "$out/src" && flex -Pcfg_yy -olexer.c lexer.l )

COMMON="-D_GNU_SOURCE -DHAVE_CONFIG_H -DLIBCONFUSE_VERIF -I$out/src -I$here/harness -w"
LIBSRC="$out/src/confuse.c $out/src/lexer.c"
MON="-include $here/harness/allocmon.h"
case "$variant" in
  asan)
    CC=gcc
    FLAGS="-O1 -g -fno-omit-frame-pointer -fsanitize=address,undefined -fno-sanitize-recover=all -fno-sanitize=nonnull-attribute" ;;
  plain)
    CC=gcc
    FLAGS="-O1 -g -fno-omit-frame-pointer" ;;
  cov)
    CC=gcc
    FLAGS="-O0 -g --coverage" ;;
  msan)
    CC=clang
    FLAGS="-O1 -g -fno-omit-frame-pointer -fsanitize=memory -fsanitize-memory-track-origins -fno-sanitize-recover=all" ;;
  fuzz)
    CC=clang
    FLAGS="-O1 -g -fno-omit-frame-pointer -fsanitize=fuzzer,address,undefined -fno-sanitize-recover=all -fno-sanitize=nonnull-attribute" ;;
  *) echo "unknown variant $variant" >&2; exit 2 ;;
esac

if [ "$variant" = fuzz ]; then
  # the fuzz target does not use allocmon: libFuzzer + ASan/LSan judge
  $CC $FLAGS $COMMON -c "$out/src/confuse.c" -o "$out/confuse.o"
  $CC $FLAGS $COMMON -c "$out/src/lexer.c" -o "$out/lexer.o"
  $CC $FLAGS $COMMON "$here/harness/fuzz_parse.c" "$out/confuse.o" "$out/lexer.o" -o "$out/fuzz_parse"
else
  ( cd "$out" && \
    $CC $FLAGS $COMMON $MON -c "$out/src/confuse.c" -o "$out/confuse.o" && \
    $CC $FLAGS $COMMON $MON -c "$out/src/lexer.c" -o "$out/lexer.o" && \
    $CC $FLAGS $COMMON -c "$here/harness/allocmon.c" -o "$out/allocmon.o" && \
    $CC $FLAGS $COMMON -c "$here/harness/vdrv.c" -o "$out/vdrv.o" && \
    $CC $FLAGS "$out/vdrv.o" "$out/confuse.o" "$out/lexer.o" "$out/allocmon.o" -o "$out/vdrv" )
fi
echo "built $variant in $out"
