/* allocmon.c - see allocmon.h */
#define _GNU_SOURCE
#define VM_NO_MACROS
#include "allocmon.h"
#include <stdint.h>

typedef struct {
	void *p;            /* NULL = empty, (void*)1 = tombstone */
	const char *func;
	int line;
	char kind;          /* m c r a s n */
} blk_t;

static blk_t *tab;
static size_t tabsz;          /* power of two */
static size_t tabused;        /* live + tombstones */
static unsigned long nlive;
static unsigned long total_allocs;

#define MAXFILES 256
static struct { FILE *fp; const char *func; int line; } files[MAXFILES];
static unsigned long nfiles;

#define TRACEMAX 8192
static struct { const char *func; int line; const char *kind; } trace[TRACEMAX];
static long oom_k;                 /* 0 = off */
static unsigned long oom_count;    /* failable allocations seen since vm_set_oom */
static const char *fail_func;
static int fail_line;
static const char *fail_kind;

static size_t hashp(void *p)
{
	uintptr_t x = (uintptr_t)p;
	x ^= x >> 17; x *= 0x9E3779B97F4A7C15ull; x ^= x >> 29;
	return (size_t)x;
}

static void tab_grow(void)
{
	size_t nsz = tabsz ? tabsz * 2 : 4096, i;
	blk_t *old = tab;
	size_t osz = tabsz;

	tab = (blk_t *)calloc(nsz, sizeof(blk_t));
	if (!tab) { fprintf(stderr, "allocmon: out of memory\n"); abort(); }
	tabsz = nsz;
	tabused = 0;
	for (i = 0; i < osz; i++) {
		if (old[i].p && old[i].p != (void *)1) {
			size_t h = hashp(old[i].p) & (tabsz - 1);
			while (tab[h].p) h = (h + 1) & (tabsz - 1);
			tab[h] = old[i];
			tabused++;
		}
	}
	free(old);
}

static void tab_add(void *p, const char *func, int line, char kind)
{
	size_t h;
	if ((tabused + 1) * 2 > tabsz) tab_grow();
	h = hashp(p) & (tabsz - 1);
	while (tab[h].p && tab[h].p != (void *)1) h = (h + 1) & (tabsz - 1);
	if (!tab[h].p) tabused++;
	tab[h].p = p; tab[h].func = func; tab[h].line = line; tab[h].kind = kind;
	nlive++;
}

static int tab_del(void *p)
{
	size_t h;
	if (!tabsz) return 0;
	h = hashp(p) & (tabsz - 1);
	while (tab[h].p) {
		if (tab[h].p == p) { tab[h].p = (void *)1; nlive--; return 1; }
		h = (h + 1) & (tabsz - 1);
	}
	return 0;
}

static const char *base(const char *file)
{
	const char *s = strrchr(file, '/');
	return s ? s + 1 : file;
}

/* decide whether this (failable) allocation is the one to fail */
static int inject(const char *file, const char *func, int line, const char *kind)
{
	if (strcmp(base(file), "confuse.c") != 0)
		return 0;
	if (oom_count < TRACEMAX) { trace[oom_count].func = func; trace[oom_count].line = line; trace[oom_count].kind = kind; }
	oom_count++;
	if (oom_k && (long)oom_count == oom_k) {
		fail_func = func; fail_line = line; fail_kind = kind;
		return 1;
	}
	return 0;
}

void *vm_malloc(size_t n, const char *file, const char *func, int line)
{
	void *p;
	total_allocs++;
	if (inject(file, func, line, "malloc")) return NULL;
	p = malloc(n);
	if (p) tab_add(p, func, line, 'm');
	return p;
}

void *vm_calloc(size_t a, size_t b, const char *file, const char *func, int line)
{
	void *p;
	total_allocs++;
	if (inject(file, func, line, "calloc")) return NULL;
	p = calloc(a, b);
	if (p) tab_add(p, func, line, 'c');
	return p;
}

void *vm_realloc(void *o, size_t n, const char *file, const char *func, int line)
{
	void *p;
	total_allocs++;
	if (inject(file, func, line, "realloc")) return NULL;
	if (o) tab_del(o);
	p = realloc(o, n);
	if (p) tab_add(p, func, line, 'r');
	else if (o && n) tab_add(o, func, line, 'r');
	return p;
}

void *vm_reallocarray(void *o, size_t a, size_t b, const char *file, const char *func, int line)
{
	void *p;
	total_allocs++;
	if (inject(file, func, line, "reallocarray")) return NULL;
	if (b && a > (size_t)-1 / b) return NULL;
	if (o) tab_del(o);
	p = realloc(o, a * b);
	if (p) tab_add(p, func, line, 'a');
	else if (o && a * b) tab_add(o, func, line, 'a');
	return p;
}

char *vm_strdup(const char *s, const char *file, const char *func, int line)
{
	char *p;
	size_t n;
	total_allocs++;
	n = strlen(s);	/* strdup(NULL) must fault exactly like the real one */
	if (inject(file, func, line, "strdup")) return NULL;
	p = (char *)malloc(n + 1);
	if (p) { memcpy(p, s, n + 1); tab_add(p, func, line, 's'); }
	return p;
}

char *vm_strndup(const char *s, size_t n, const char *file, const char *func, int line)
{
	char *p;
	size_t l;
	total_allocs++;
	l = strnlen(s, n);
	if (inject(file, func, line, "strndup")) return NULL;
	p = (char *)malloc(l + 1);
	if (p) { memcpy(p, s, l); p[l] = 0; tab_add(p, func, line, 'n'); }
	return p;
}

void vm_free(void *p)
{
	if (p) tab_del(p);
	free(p);	/* a block we never saw goes straight to the real free: ASan judges it */
}

FILE *vm_fopen(const char *path, const char *mode, const char *file, const char *func, int line)
{
	FILE *fp = fopen(path, mode);
	(void)file;
	if (fp && nfiles < MAXFILES) { files[nfiles].fp = fp; files[nfiles].func = func; files[nfiles].line = line; nfiles++; }
	return fp;
}

FILE *vm_fmemopen(void *buf, size_t n, const char *mode, const char *file, const char *func, int line)
{
	FILE *fp = fmemopen(buf, n, mode);
	(void)file;
	if (fp && nfiles < MAXFILES) { files[nfiles].fp = fp; files[nfiles].func = func; files[nfiles].line = line; nfiles++; }
	return fp;
}

int vm_fclose(FILE *fp)
{
	unsigned long i;
	for (i = 0; i < nfiles; i++) {
		if (files[i].fp == fp) { files[i] = files[nfiles - 1]; nfiles--; break; }
	}
	return fclose(fp);
}

unsigned long vm_live_count(void) { return nlive; }
unsigned long vm_files_live(void) { return nfiles; }
unsigned long vm_total_allocs(void) { return total_allocs; }

void vm_live_report(FILE *out)
{
	size_t i;
	int first = 1;
	fputc('[', out);
	for (i = 0; i < tabsz; i++) {
		if (tab[i].p && tab[i].p != (void *)1) {
			fprintf(out, "%s{\"f\":\"%s\",\"l\":%d,\"k\":\"%c\"}", first ? "" : ",", tab[i].func, tab[i].line, tab[i].kind);
			first = 0;
		}
	}
	fputc(']', out);
}

void vm_files_report(FILE *out)
{
	unsigned long i;
	fputc('[', out);
	for (i = 0; i < nfiles; i++)
		fprintf(out, "%s{\"f\":\"%s\",\"l\":%d}", i ? "," : "", files[i].func, files[i].line);
	fputc(']', out);
}

void vm_set_oom(long k) { oom_k = k; oom_count = 0; fail_func = NULL; fail_line = 0; fail_kind = NULL; }
unsigned long vm_alloc_count(void) { return oom_count; }
const char *vm_fail_func(void) { return fail_func; }
int vm_fail_line(void) { return fail_line; }
const char *vm_fail_kind(void) { return fail_kind; }

void vm_forget_all(void)
{
	size_t i;
	for (i = 0; i < tabsz; i++) tab[i].p = NULL;
	tabused = 0; nlive = 0; nfiles = 0;
}

void vm_trace_report(FILE *out)
{
	unsigned long i, n = oom_count < TRACEMAX ? oom_count : TRACEMAX;
	fputc('[', out);
	for (i = 0; i < n; i++)
		fprintf(out, "%s[\"%s\",%d,\"%s\"]", i ? "," : "", trace[i].func, trace[i].line, trace[i].kind);
	fputc(']', out);
}
