/* allocmon: tagged, failable allocator wrappers.
 *
 * Force-included (-include allocmon.h) when compiling the library sources
 * (confuse.c, lexer.c): every malloc/calloc/realloc/reallocarray/strdup/
 * strndup/free and fopen/fmemopen/fclose the *library* issues goes through a
 * wrapper that keeps a live-block table (who allocated what is still live)
 * and can make the k-th allocation issued from confuse.c return NULL.
 * The driver includes it with VM_NO_MACROS to get the query API only.
 * Nothing in the repository is changed for this.
 */
#ifndef VERIF_ALLOCMON_H
#define VERIF_ALLOCMON_H

#include <stdio.h>
#include <stdlib.h>
#include <string.h>

void *vm_malloc(size_t n, const char *file, const char *func, int line);
void *vm_calloc(size_t a, size_t b, const char *file, const char *func, int line);
void *vm_realloc(void *p, size_t n, const char *file, const char *func, int line);
void *vm_reallocarray(void *p, size_t a, size_t b, const char *file, const char *func, int line);
char *vm_strdup(const char *s, const char *file, const char *func, int line);
char *vm_strndup(const char *s, size_t n, const char *file, const char *func, int line);
void vm_free(void *p);
FILE *vm_fopen(const char *path, const char *mode, const char *file, const char *func, int line);
FILE *vm_fmemopen(void *buf, size_t n, const char *mode, const char *file, const char *func, int line);
int vm_fclose(FILE *fp);

/* query / control API (driver side) */
unsigned long vm_live_count(void);
unsigned long vm_files_live(void);
void vm_live_report(FILE *out);       /* JSON array of {site,line,n} */
void vm_files_report(FILE *out);
void vm_set_oom(long k);              /* fail the k-th failable allocation from now on (0 = off) */
unsigned long vm_alloc_count(void);   /* failable allocations since last vm_set_oom() */
const char *vm_fail_func(void);       /* site of the injected failure, or NULL */
int vm_fail_line(void);
const char *vm_fail_kind(void);
unsigned long vm_total_allocs(void);
void vm_forget_all(void);
void vm_trace_report(FILE *out);    /* JSON array of the failable allocations since vm_set_oom, in order */             /* drop the tables (after a case was abandoned) */

#ifndef VM_NO_MACROS
#define malloc(n)            vm_malloc((n), __FILE__, __func__, __LINE__)
#define calloc(a, b)         vm_calloc((a), (b), __FILE__, __func__, __LINE__)
#define realloc(p, n)        vm_realloc((p), (n), __FILE__, __func__, __LINE__)
#define reallocarray(p, a, b) vm_reallocarray((p), (a), (b), __FILE__, __func__, __LINE__)
#undef strdup
#undef strndup
#define strdup(s)            vm_strdup((s), __FILE__, __func__, __LINE__)
#define strndup(s, n)        vm_strndup((s), (n), __FILE__, __func__, __LINE__)
#define free(p)              vm_free((p))
#define fopen(p, m)          vm_fopen((p), (m), __FILE__, __func__, __LINE__)
#define fmemopen(b, n, m)    vm_fmemopen((b), (n), (m), __FILE__, __func__, __LINE__)
#define fclose(f)            vm_fclose((f))
#endif

#endif
