/* vdrv - case-script interpreter driving libconfuse; see DESIGN.md 3.2
 *
 * usage: vdrv <script> <log>
 * Script: one op per line, space separated tokens. Strings: '-' = NULL,
 * 'h<hex>' = bytes.  Log: one JSON object per line.
 */
#define _GNU_SOURCE
#define VM_NO_MACROS
#include <stdio.h>
#include <stdlib.h>
#include <string.h>
#include <stdarg.h>
#include <errno.h>
#include <unistd.h>
#include <fcntl.h>
#include <dirent.h>
#include <signal.h>
#include <sys/mman.h>
#include <sys/stat.h>
#include <sys/resource.h>
#include "confuse.h"
#include "allocmon.h"

extern int cfg_include_stack_ptr;
#ifdef LIBCONFUSE_VERIF
extern int cfg_verif_scanner_state(int *start_cond, int *bufdepth);
#endif
int __lsan_do_recoverable_leak_check(void) __attribute__((weak));

static FILE *LOG;
static char startdir[4096];
static int flush_every;
static const char SENTINEL[] = "verif_stdin_sentinel = 1\n";

/* ------------------------------------------------------------------ util */

static void die(const char *fmt, ...)
{
	va_list ap;
	va_start(ap, fmt);
	fprintf(stderr, "vdrv: ");
	vfprintf(stderr, fmt, ap);
	fprintf(stderr, "\n");
	va_end(ap);
	if (LOG) { fprintf(LOG, "{\"ev\":\"harness_error\"}\n"); fflush(LOG); }
	_exit(3);
}

static void *xmalloc(size_t n)
{
	void *p = malloc(n ? n : 1);
	if (!p) die("oom");
	return p;
}

static int hexv(int c)
{
	if (c >= '0' && c <= '9') return c - '0';
	if (c >= 'a' && c <= 'f') return c - 'a' + 10;
	if (c >= 'A' && c <= 'F') return c - 'A' + 10;
	return -1;
}

/* decode a string token: '-' => NULL, 'h<hex>' => malloc'd NUL-terminated
 * bytes (length in *len if given) */
static char *sdec(const char *tok, size_t *len)
{
	size_t n, i;
	char *s;
	if (!tok) die("missing string token");
	if (tok[0] == '-' && !tok[1]) { if (len) *len = 0; return NULL; }
	if (tok[0] != 'h') die("bad string token '%s'", tok);
	n = strlen(tok + 1) / 2;
	s = xmalloc(n + 1);
	for (i = 0; i < n; i++)
		s[i] = (char)(hexv(tok[1 + 2 * i]) * 16 + hexv(tok[2 + 2 * i]));
	s[n] = 0;
	/* "@CWD@" stands for the directory the driver was started in (absolute file names in scripts) */
	if (strstr(s, "@CWD@")) {
		size_t sl = strlen(startdir), cap = n + 64 * sl + 1, o = 0;
		char *r = xmalloc(cap), *p = s;
		while (*p && o + sl + 2 < cap) {
			if (!strncmp(p, "@CWD@", 5)) { memcpy(r + o, startdir, sl); o += sl; p += 5; }
			else r[o++] = *p++;
		}
		r[o] = 0;
		free(s);
		s = r; n = o;
	}
	if (len) *len = n;
	return s;
}

static void jhexn(const char *s, size_t n)
{
	size_t i;
	fputc('"', LOG);
	for (i = 0; i < n; i++)
		fprintf(LOG, "%02x", (unsigned char)s[i]);
	fputc('"', LOG);
}

static void jhex(const char *s)
{
	if (!s) { fputs("null", LOG); return; }
	jhexn(s, strlen(s));
}

static void evflush(void)
{
	if (flush_every) fflush(LOG);
}

/* -------------------------------------------------------------- schemas */

#define MAXSCHEMA 1024
#define MAXOPTS 64
typedef struct {
	int used;
	int poisoned;
	int nopts;
	cfg_opt_t *opts;                 /* malloc'd array, nopts+1 */
	void *simple[MAXOPTS];           /* storage of CFG_SIMPLE_* options */
	int simple_isstr[MAXOPTS];
} schema_t;
static schema_t schemas[MAXSCHEMA];
static schema_t *cur_schema;

#define MAXCTX 16
static cfg_t *ctx[MAXCTX];

/* scripted callback behaviour */
static long cbcount, failat;
static int v2mode;                   /* 0 accept, 1 veto, 2 rewrite */
static long next_tok, tokens_out;
static char *strcb_buf;

typedef struct { unsigned long magic; long id; unsigned long h; } ptrtok_t;
#define TOKMAGIC 0x70747274ul

static void log_opt_values(cfg_opt_t *opt);

static void h_errfunc(cfg_t *cfg, const char *fmt, va_list ap)
{
	char msg[1024];
	vsnprintf(msg, sizeof msg, fmt, ap);
	fprintf(LOG, "{\"ev\":\"diag\",\"file\":");
	jhex(cfg ? cfg->filename : NULL);
	fprintf(LOG, ",\"line\":%d,\"sec\":", cfg ? cfg->line : -1);
	jhex(cfg ? cfg->name : NULL);
	fprintf(LOG, ",\"msg\":");
	jhex(msg);
	fprintf(LOG, "}\n");
	evflush();
}

/* a second error function: the same report, marked, so that a change of handler between parses is visible */
static void h_errfunc2(cfg_t *cfg, const char *fmt, va_list ap)
{
	fprintf(LOG, "{\"ev\":\"handler\",\"h\":2}\n");
	h_errfunc(cfg, fmt, ap);
}

static int cb_should_fail(void)
{
	cbcount++;
	return failat && cbcount == failat;
}

static long cb_int_of(const char *v)
{
	long s = 0; size_t n = 0;
	for (; v && *v; v++, n++) s += (unsigned char)*v;
	return s + 1000 * (long)n;
}

static int h_parsecb(cfg_t *cfg, cfg_opt_t *opt, const char *value, void *result)
{
	int fail = cb_should_fail();
	long tok = -1;

	if (!fail) {
		switch (opt->type) {
		case CFGT_INT: *(long *)result = cb_int_of(value); break;
		case CFGT_FLOAT: *(double *)result = (double)cb_int_of(value) + 0.5; break;
		case CFGT_BOOL: *(int *)result = (int)(cb_int_of(value) & 1); break;
		case CFGT_STR:
			free(strcb_buf);
			strcb_buf = xmalloc(strlen(value ? value : "") + 3);
			sprintf(strcb_buf, "<%s>", value ? value : "");
			*(const char **)result = strcb_buf;
			break;
		case CFGT_PTR: {
			ptrtok_t *t = xmalloc(sizeof *t);
			t->magic = TOKMAGIC; t->id = tok = next_tok++;
			{ const char *q = value ? value : ""; unsigned long h = 5381; for (; *q; q++) h = h * 33 + (unsigned char)*q; t->h = h % 1000000; }
			tokens_out++;
			*(void **)result = t;
			break;
		}
		default: break;
		}
	} else {
		/* a callback that refuses may already have written to its result: the library must not look at it */
		switch (opt->type) {
		case CFGT_INT: *(long *)result = -777777; break;
		case CFGT_FLOAT: *(double *)result = -7777.75; break;
		case CFGT_BOOL: *(int *)result = 1; break;
		case CFGT_STR: *(const char **)result = "scribbled by a refusing callback"; break;
		default: break;
		}
	}
	fprintf(LOG, "{\"ev\":\"cb\",\"k\":\"parse\",\"n\":%ld,\"opt\":", cbcount);
	jhex(opt->name);
	fprintf(LOG, ",\"val\":");
	jhex(value);
	fprintf(LOG, ",\"tok\":%ld,\"fail\":%d}\n", tok, fail);
	evflush();
	if (fail) { cfg_error(cfg, "verif: parse callback refuses"); return 1; }
	errno = ERANGE;		/* a callback that accepts may leave errno in any state: its return value is what counts */
	return 0;
}

static int h_validcb(cfg_t *cfg, cfg_opt_t *opt)
{
	int fail = cb_should_fail();
	fprintf(LOG, "{\"ev\":\"cb\",\"k\":\"valid\",\"n\":%ld,\"opt\":", cbcount);
	jhex(opt->name);
	fprintf(LOG, ",\"fail\":%d,\"snap\":", fail);
	log_opt_values(opt);
	fprintf(LOG, "}\n");
	evflush();
	if (fail) { cfg_error(cfg, "verif: validate callback refuses"); return 1; }
	return 0;
}

static int h_validcb2(cfg_t *cfg, cfg_opt_t *opt, void *value)
{
	(void)cfg;
	fprintf(LOG, "{\"ev\":\"cb\",\"k\":\"valid2\",\"opt\":");
	jhex(opt->name);
	fprintf(LOG, ",\"mode\":%d", v2mode);
	if (opt->type == CFGT_INT) fprintf(LOG, ",\"arg\":%ld", *(long *)value);
	else if (opt->type == CFGT_FLOAT) fprintf(LOG, ",\"arg\":\"%a\"", *(double *)value);
	else if (opt->type == CFGT_STR) { fprintf(LOG, ",\"arg\":"); jhex((const char *)value); }
	fprintf(LOG, "}\n");
	evflush();
	if (v2mode == 1) return 1;
	if (v2mode == 2) {
		if (opt->type == CFGT_INT) *(long *)value = 4242;
		else if (opt->type == CFGT_FLOAT) *(double *)value = 42.5;
	}
	return 0;
}

static void h_printfunc(cfg_opt_t *opt, unsigned int index, FILE *fp)
{
	fprintf(fp, "<<%s:%u>>", opt->name, index);
}

static void h_freecb(void *p)
{
	ptrtok_t *t = p;
	int ok = t && t->magic == TOKMAGIC;
	fprintf(LOG, "{\"ev\":\"cb\",\"k\":\"free\",\"tok\":%ld,\"ok\":%d}\n", ok ? t->id : -1, ok);
	evflush();
	if (ok) { t->magic = 0xdead; tokens_out--; free(t); }
}

/* nestmode: a function callback that itself parses a text (with a function call of its own) into another context
 * before it looks at its arguments - the library is re-entered while the outer call's argument vector is live */
static int nestmode;
static cfg_t *nest_ctx;
static int h_func_inner(cfg_t *cfg, cfg_opt_t *opt, int argc, const char **argv)
{
	(void)cfg; (void)opt; (void)argv;
	fprintf(LOG, "{\"ev\":\"inner\",\"argc\":%d}\n", argc);
	return 0;
}
static void nested_parse(void)
{
	static cfg_opt_t nopts[] = { CFG_FUNC("inner", h_func_inner), CFG_INT("n", 0, CFGF_NONE), CFG_END() };
	int rc;
	if (!nest_ctx) nest_ctx = cfg_init(nopts, CFGF_NONE);
	if (!nest_ctx) return;
	rc = cfg_parse_buf(nest_ctx, "n = 1\ninner(p, q, r, s, t, u, v, w, x, y, z)\nn = 2\n");
	fprintf(LOG, "{\"ev\":\"nested\",\"rc\":%d,\"n\":%ld}\n", rc, cfg_getint(nest_ctx, "n"));
}

static int h_func(cfg_t *cfg, cfg_opt_t *opt, int argc, const char **argv)
{
	int fail, i;
	if (nestmode) nested_parse();
	fail = cb_should_fail();
	fprintf(LOG, "{\"ev\":\"cb\",\"k\":\"func\",\"n\":%ld,\"opt\":", cbcount);
	jhex(opt->name);
	fprintf(LOG, ",\"fail\":%d,\"args\":[", fail);
	for (i = 0; i < argc; i++) { if (i) fputc(',', LOG); jhex(argv[i]); }
	fprintf(LOG, "]}\n");
	evflush();
	if (fail) { cfg_error(cfg, "verif: function callback refuses"); return 1; }
	return 0;
}

/* print filters: 8 slots, each filters out names whose hash bit is set */
static unsigned int pff_mask[8];
static int pff_log;
static unsigned name_bit(const char *s)
{
	unsigned h = 5381;
	for (; *s; s++) h = h * 33 + (unsigned char)*s;
	return h % 32;
}
static int pff_common(int slot, cfg_t *cfg, cfg_opt_t *opt)
{
	int r = (pff_mask[slot] >> name_bit(opt->name)) & 1;
	if (pff_log) {
		fprintf(LOG, "{\"ev\":\"pff\",\"slot\":%d,\"sec\":", slot);
		jhex(cfg->name);
		fprintf(LOG, ",\"title\":");
		jhex(cfg->title);
		fprintf(LOG, ",\"opt\":");
		jhex(opt->name);
		fprintf(LOG, ",\"r\":%d}\n", r);
	}
	return r;
}
#define PFF(n) static int pff_##n(cfg_t *c, cfg_opt_t *o) { return pff_common(n, c, o); }
PFF(0) PFF(1) PFF(2) PFF(3) PFF(4) PFF(5) PFF(6) PFF(7)
static cfg_print_filter_func_t pff_tab[8] = { pff_0, pff_1, pff_2, pff_3, pff_4, pff_5, pff_6, pff_7 };

static char *xstrdup_or_null(const char *s)
{
	char *r;
	if (!s) return NULL;
	r = xmalloc(strlen(s) + 1);
	strcpy(r, s);
	return r;
}

/* o <name> <type> <flags> <dnum> <dfp> <dbool> <dstr> <dparsed> <cbs> <sub> <simple> */
static void op_schema_opt(char **t, int nt)
{
	schema_t *s = cur_schema;
	cfg_opt_t *o;
	const char *cbs;
	if (!s) die("o outside schema");
	if (nt < 12) die("o: need 12 tokens");
	if (s->nopts >= MAXOPTS - 1) die("too many options");
	o = &s->opts[s->nopts];
	memset(o, 0, sizeof *o);
	o->name = sdec(t[1], NULL);
	if (!strcmp(t[2], "int")) o->type = CFGT_INT;
	else if (!strcmp(t[2], "float")) o->type = CFGT_FLOAT;
	else if (!strcmp(t[2], "bool")) o->type = CFGT_BOOL;
	else if (!strcmp(t[2], "str")) o->type = CFGT_STR;
	else if (!strcmp(t[2], "ptr")) o->type = CFGT_PTR;
	else if (!strcmp(t[2], "sec")) o->type = CFGT_SEC;
	else if (!strcmp(t[2], "func")) o->type = CFGT_FUNC;
	else die("bad type %s", t[2]);
	o->flags = (cfg_flag_t)strtol(t[3], NULL, 0);
	o->def.number = strtol(t[4], NULL, 0);
	o->def.fpnumber = strtod(t[5], NULL);
	o->def.boolean = (cfg_bool_t)atoi(t[6]);
	o->def.string = sdec(t[7], NULL);
	o->def.parsed = sdec(t[8], NULL);
	cbs = t[9];
	if (strchr(cbs, 'p')) o->parsecb = h_parsecb;
	if (strchr(cbs, 'v')) o->validcb = h_validcb;
	if (strchr(cbs, 'w')) o->validcb2 = h_validcb2;
	if (strchr(cbs, 'r')) o->pf = h_printfunc;
	if (strchr(cbs, 'f')) o->freecb = h_freecb;
	if (strchr(cbs, 'F')) o->func = h_func;
	if (strchr(cbs, 'I')) o->func = cfg_include;
	if (strcmp(t[10], ".")) {
		int sid = atoi(t[10]);
		if (sid < 0 || sid >= MAXSCHEMA || !schemas[sid].used) die("bad sub schema %d", sid);
		/* each use gets the very same array, like a C declaration would */
		o->subopts = schemas[sid].opts;
	}
	if (atoi(t[11])) {
		void *st = xmalloc(sizeof(cfg_value_t));
		memset(st, 0, sizeof(cfg_value_t));
		s->simple[s->nopts] = st;
		s->simple_isstr[s->nopts] = (o->type == CFGT_STR);
		o->simple_value.ptr = st;
		if (o->type == CFGT_INT) *(long *)st = o->def.number;
		if (o->type == CFGT_FLOAT) *(double *)st = o->def.fpnumber;
		if (o->type == CFGT_BOOL) *(cfg_bool_t *)st = o->def.boolean;
	}
	if (nt > 12) o->comment = sdec(t[12], NULL);	/* .comment set in the declaration itself */
	s->nopts++;
	memset(&s->opts[s->nopts], 0, sizeof(cfg_opt_t));
}

static void schema_release(schema_t *s, int poison)
{
	int i;
	if (!s->used) return;
	for (i = 0; i < s->nopts; i++) {
		cfg_opt_t *o = &s->opts[i];
		if (!s->poisoned) {
			if (poison) {
				if (o->name) memset((char *)o->name, 0xA5, strlen(o->name));
				if (o->def.string) memset((char *)o->def.string, 0xA5, strlen(o->def.string));
				if (o->def.parsed) memset(o->def.parsed, 0xA5, strlen(o->def.parsed));
			}
			if (poison && o->comment) memset(o->comment, 0xA5, strlen(o->comment));
			free((char *)o->name);
			free((char *)o->def.string);
			free(o->def.parsed);
			free(o->comment);
		}
		if (!poison && s->simple[i]) {
			if (s->simple_isstr[i]) vm_free(*(char **)s->simple[i]);
			free(s->simple[i]);
			s->simple[i] = NULL;
		}
	}
	if (!s->poisoned) {
		if (poison) memset(s->opts, 0xA5, sizeof(cfg_opt_t) * (s->nopts + 1));
		free(s->opts);
		s->opts = NULL;
	}
	if (poison) s->poisoned = 1;
	else { s->used = 0; s->poisoned = 0; s->nopts = 0; }
}

/* ------------------------------------------------------------- locators */

static cfg_t *loc_cfg;      /* section the locator ends in (or contains the option) */
static cfg_opt_t *loc_opt;  /* option, if the locator names one */

static int resolve(const char *tok)
{
	char buf[512], *p, *save = NULL;
	int cid;
	cfg_t *c;
	loc_cfg = NULL; loc_opt = NULL;
	if (!tok || strlen(tok) >= sizeof buf) return -1;
	strcpy(buf, tok);
	p = strtok_r(buf, ":", &save);
	if (!p) return -1;
	cid = atoi(p);
	if (cid < 0 || cid >= MAXCTX || !ctx[cid]) return -1;
	c = ctx[cid];
	while ((p = strtok_r(NULL, ":", &save))) {
		char *dot = strchr(p, '.');
		cfg_opt_t *o;
		if (loc_opt) return -1;	/* option must be last */
		o = cfg_getnopt(c, (unsigned)atoi(p));
		if (!o) return -1;
		if (dot) {
			c = cfg_opt_getnsec(o, (unsigned)atoi(dot + 1));
			if (!c) return -1;
		} else {
			loc_opt = o;
		}
	}
	loc_cfg = c;
	return 0;
}

/* find position string of an option / section pointer below root */
static int find_in(cfg_t *c, cfg_opt_t *topt, cfg_t *tsec, char *out, size_t pos, size_t cap)
{
	unsigned i, j;
	cfg_opt_t *o;
	for (i = 0; (o = cfg_getnopt(c, i)); i++) {
		if (topt && o == topt) { snprintf(out + pos, cap - pos, ":%u", i); return 1; }
		if (o->type == CFGT_SEC) {
			for (j = 0; j < cfg_opt_size(o); j++) {
				cfg_t *s = cfg_opt_getnsec(o, j);
				int n;
				if (!s) continue;
				n = snprintf(out + pos, cap - pos, ":%u.%u", i, j);
				if (tsec && s == tsec) return 1;
				if (find_in(s, topt, tsec, out, pos + n, cap)) return 1;
				out[pos] = 0;
			}
		}
	}
	return 0;
}

static void log_pos(int cid, cfg_opt_t *topt, cfg_t *tsec)
{
	char buf[512];
	int n;
	if (!topt && !tsec) { fputs("null", LOG); return; }
	n = snprintf(buf, sizeof buf, "%d", cid);
	if (tsec && tsec == ctx[cid]) { fprintf(LOG, "\"%s\"", buf); return; }
	if (find_in(ctx[cid], topt, tsec, buf, n, sizeof buf)) fprintf(LOG, "\"%s\"", buf);
	else fputs("\"?\"", LOG);
}

/* ----------------------------------------------------------------- dump */

static const char *tname(cfg_type_t t)
{
	switch (t) {
	case CFGT_INT: return "int"; case CFGT_FLOAT: return "float"; case CFGT_STR: return "str";
	case CFGT_BOOL: return "bool"; case CFGT_SEC: return "sec"; case CFGT_FUNC: return "func";
	case CFGT_PTR: return "ptr"; default: return "none";
	}
}

static void dump_cfg(cfg_t *c, int depth);

static void log_one_value(cfg_opt_t *o, unsigned i, int depth)
{
	switch (o->type) {
	case CFGT_INT: fprintf(LOG, "%ld", cfg_opt_getnint(o, i)); break;
	case CFGT_FLOAT: fprintf(LOG, "\"%a\"", cfg_opt_getnfloat(o, i)); break;
	case CFGT_BOOL: fprintf(LOG, "%d", (int)cfg_opt_getnbool(o, i)); break;
	case CFGT_STR: jhex(cfg_opt_getnstr(o, i)); break;
	case CFGT_PTR: {
		ptrtok_t *t = cfg_opt_getnptr(o, i);
		fprintf(LOG, "%ld", t ? (t->magic == TOKMAGIC ? (long)t->h : -2) : -1);
		break;
	}
	case CFGT_SEC:
		if (depth >= 0) dump_cfg(cfg_opt_getnsec(o, i), depth + 1);
		else fputs("\"sec\"", LOG);
		break;
	default: fputs("null", LOG);
	}
}

/* values only (used by snapshots inside callbacks; no recursion into sections) */
static void log_opt_values(cfg_opt_t *o)
{
	unsigned i, n = cfg_opt_size(o);
	fprintf(LOG, "{\"f\":%d,\"v\":[", o->flags);
	for (i = 0; i < n; i++) { if (i) fputc(',', LOG); log_one_value(o, i, -1); }
	fputs("]}", LOG);
}

static int dump_values_only;
static int getter_monitor = 1;
static int sticky_errno;

static void dump_opt(cfg_opt_t *o, int depth)
{
	unsigned i, n = cfg_opt_size(o);
	fputs("{\"n\":", LOG);
	jhex(cfg_opt_name(o));
	if (dump_values_only) {
		fprintf(LOG, ",\"t\":\"%s\"", tname(o->type));
		if (dump_values_only == 2) { fputs(",\"c\":", LOG); jhex(cfg_opt_getcomment(o)); }
	} else {
		fprintf(LOG, ",\"t\":\"%s\",\"f\":%d,\"c\":", tname(o->type), o->flags);
		jhex(cfg_opt_getcomment(o));
	}
	if (o->simple_value.ptr) {
		fputs(",\"sv\":", LOG);
		log_one_value(o, 0, depth);
	}
	fputs(",\"v\":[", LOG);
	for (i = 0; i < n; i++) { if (i) fputc(',', LOG); log_one_value(o, i, depth); }
	fputs("]}", LOG);
}

static void dump_cfg(cfg_t *c, int depth)
{
	unsigned i;
	cfg_opt_t *o;
	if (!c) { fputs("null", LOG); return; }
	if (depth > 400) { fputs("\"deep\"", LOG); return; }
	fputs("{\"name\":", LOG);
	jhex(cfg_name(c));
	fputs(",\"title\":", LOG);
	jhex(cfg_title(c));
	fputs(",\"opts\":[", LOG);
	for (i = 0; (o = cfg_getnopt(c, i)); i++) { if (i) fputc(',', LOG); dump_opt(o, depth); }
	fputs("]}", LOG);
}

/* ---------------------------------------------------------- process-level */

static int fd_count(void)
{
	DIR *d = opendir("/proc/self/fd");
	struct dirent *e;
	int n = 0;
	if (!d) return -1;
	while ((e = readdir(d))) if (e->d_name[0] != '.') n++;
	closedir(d);
	return n - 1;	/* the DIR's own descriptor */
}

static int base_fds;
static int stdout_fd_saved = -1;

static void setup_stdio(void)
{
	int mfd, sfd;
	/* fd 1 -> memfd: any byte the library writes to stdout is an event */
	mfd = memfd_create("verif_stdout", 0);
	if (mfd < 0) die("memfd_create");
	fflush(stdout);
	dup2(mfd, 1);
	close(mfd);
	/* fd 0 -> memfd with a sentinel text: reading it moves the offset */
	sfd = memfd_create("verif_stdin", 0);
	if (sfd < 0) die("memfd_create");
	if (write(sfd, SENTINEL, sizeof SENTINEL - 1) < 0) die("write");
	lseek(sfd, 0, SEEK_SET);
	dup2(sfd, 0);
	close(sfd);
}

/* report + reset the stdout / stdin monitors; returns 1 if anything was seen */
static void check_stdio(void)
{
	off_t n;
	fflush(stdout);
	n = lseek(1, 0, SEEK_CUR);
	if (n > 0) {
		char buf[256];
		ssize_t r;
		lseek(1, 0, SEEK_SET);
		r = read(1, buf, sizeof buf);
		fprintf(LOG, "{\"ev\":\"stdout\",\"n\":%ld,\"bytes\":", (long)n);
		jhexn(buf, r > 0 ? (size_t)r : 0);
		fputs("}\n", LOG);
		if (ftruncate(1, 0)) {}
		lseek(1, 0, SEEK_SET);
	}
	n = lseek(0, 0, SEEK_CUR);
	if (n != 0 || ftell(stdin) > 0) {
		fprintf(LOG, "{\"ev\":\"stdin_read\",\"pos\":%ld}\n", (long)n);
		lseek(0, 0, SEEK_SET);
		clearerr(stdin);
		rewind(stdin);
	}
}

/* ------------------------------------------------------------------ ops */

static char *envset[64];
static int nenvset;
static long cur_case = -1;

static void logret(const char *op, long rc)
{
	fprintf(LOG, "{\"ev\":\"r\",\"op\":\"%s\",\"rc\":%ld}\n", op, rc);
	evflush();
}

static void badloc(const char *op, const char *tok)
{
	fprintf(LOG, "{\"ev\":\"badloc\",\"op\":\"%s\",\"loc\":\"%s\"}\n", op, tok ? tok : "");
	evflush();
}

static void case_cleanup(void)
{
	int i;
	if (geteuid() != getuid()) { if (seteuid(getuid())) {} }
	for (i = 0; i < MAXCTX; i++) {
		if (ctx[i]) { cfg_free(ctx[i]); ctx[i] = NULL; }
	}
	if (nest_ctx) { cfg_free(nest_ctx); nest_ctx = NULL; }
	nestmode = 0;
	for (i = MAXSCHEMA - 1; i >= 0; i--) schema_release(&schemas[i], 0);
	for (i = 0; i < MAXSCHEMA; i++) { schemas[i].used = 0; schemas[i].poisoned = 0; schemas[i].nopts = 0; }
	cur_schema = NULL;
	for (i = 0; i < nenvset; i++) { unsetenv(envset[i]); free(envset[i]); }
	nenvset = 0;
	free(strcb_buf); strcb_buf = NULL;
	if (chdir(startdir)) {}
}

static void print_to_mem(const char *op, cfg_t *c, cfg_opt_t *o, int indent, int mode)
{
	char *buf = NULL;
	size_t sz = 0;
	FILE *fp = open_memstream(&buf, &sz);
	int rc = -99;
	if (!fp) die("open_memstream");
	switch (mode) {
	case 0: rc = cfg_print(c, fp); break;
	case 1: rc = cfg_print_indent(c, fp, indent); break;
	case 2: rc = cfg_opt_print(o, fp); break;
	case 3: rc = cfg_opt_print_indent(o, fp, indent); break;
	}
	fclose(fp);
	fprintf(LOG, "{\"ev\":\"print\",\"op\":\"%s\",\"rc\":%d,\"out\":", op, rc);
	jhexn(buf, sz);
	fputs("}\n", LOG);
	free(buf);
	evflush();
}

#define NEED(n) do { if (nt < (n)) die("%s: need %d tokens (line %ld)", t[0], (n), lineno); } while (0)
#define LOC(i) do { if (resolve(t[i])) { badloc(t[0], t[i]); return; } } while (0)
#define LOCOPT(i) do { if (resolve(t[i]) || !loc_opt) { badloc(t[0], t[i]); return; } } while (0)

static long lineno;
static int oomhit_reported;

static void run_op(char **t, int nt)
{
	const char *op = t[0];

	if (!strcmp(op, "case")) {
		NEED(2);
		cur_case = atol(t[1]);
		cbcount = 0; failat = 0; v2mode = 0; next_tok = 0; tokens_out = 0; pff_log = 0; getter_monitor = 1; sticky_errno = 0;
		vm_set_oom(0);
		errno = 0;
		base_fds = fd_count();
		fprintf(LOG, "{\"ev\":\"case\",\"id\":%ld}\n", cur_case);
		fflush(LOG);
		return;
	}
	if (!strcmp(op, "endcase")) {
		int lsan = -1;
		vm_set_oom(0);
		case_cleanup();
		check_stdio();
		if (nt > 1 && !strcmp(t[1], "leak") && __lsan_do_recoverable_leak_check)
			lsan = __lsan_do_recoverable_leak_check();
		fprintf(LOG, "{\"ev\":\"endcase\",\"id\":%ld,\"live\":%lu,\"files\":%lu,\"fds\":%d,\"fds0\":%d,\"toks\":%ld,\"incptr\":%d,\"lsan\":%d",
			cur_case, vm_live_count(), vm_files_live(), fd_count(), base_fds, tokens_out, cfg_include_stack_ptr, lsan);
		if (vm_live_count()) { fputs(",\"sites\":", LOG); vm_live_report(LOG); }
		if (vm_files_live()) { fputs(",\"fsites\":", LOG); vm_files_report(LOG); }
		fputs("}\n", LOG);
		fflush(LOG);
		if (vm_live_count() || vm_files_live()) vm_forget_all();
		cur_case = -1;
		return;
	}
	if (!strcmp(op, "schema")) {
		int sid;
		NEED(2);
		sid = atoi(t[1]);
		if (sid < 0 || sid >= MAXSCHEMA) die("bad schema id");
		cur_schema = &schemas[sid];
		memset(cur_schema, 0, sizeof *cur_schema);
		cur_schema->used = 1;
		cur_schema->opts = xmalloc(sizeof(cfg_opt_t) * MAXOPTS);
		memset(cur_schema->opts, 0, sizeof(cfg_opt_t));
		return;
	}
	if (!strcmp(op, "o")) { op_schema_opt(t, nt); return; }
	if (!strcmp(op, "endschema")) {
		/* shrink to the exact size so that ASan sees overreads of the array */
		schema_t *s = cur_schema;
		cfg_opt_t *exact = xmalloc(sizeof(cfg_opt_t) * (s->nopts + 1));
		memcpy(exact, s->opts, sizeof(cfg_opt_t) * (s->nopts + 1));
		free(s->opts);
		s->opts = exact;
		cur_schema = NULL;
		return;
	}
	if (!strcmp(op, "nullschema")) {
		/* a section declared with NULL sub-options: CFG_SEC(name, NULL, ...) */
		return;
	}
	if (!strcmp(op, "poison")) {
		int i;
		for (i = MAXSCHEMA - 1; i >= 0; i--) schema_release(&schemas[i], 1);
		logret(op, 0);
		return;
	}
	if (!strcmp(op, "init") || !strcmp(op, "initq")) {
		int cid, sid, flags, noerr;
		NEED(4);
		cid = atoi(t[1]); sid = atoi(t[2]); flags = (int)strtol(t[3], NULL, 0);
		noerr = nt > 4 && atoi(t[4]);
		if (op[4] == 'q' && cid >= 0 && cid < MAXCTX && ctx[cid]) return;	/* initq: only if absent */
		if (cid < 0 || cid >= MAXCTX || ctx[cid]) die("bad cid");
		if (!schemas[sid].used) die("init: schema %d undefined", sid);
		ctx[cid] = cfg_init(schemas[sid].opts, flags);
		if (ctx[cid] && !noerr) cfg_set_error_function(ctx[cid], h_errfunc);
		logret(op, ctx[cid] ? 0 : -1);
		return;
	}
	if (!strcmp(op, "free")) {
		int cid, rc;
		NEED(2);
		cid = atoi(t[1]);
		if (cid < 0 || cid >= MAXCTX || !ctx[cid]) { badloc(op, t[1]); return; }
		rc = cfg_free(ctx[cid]);
		ctx[cid] = NULL;
		logret(op, rc);
		return;
	}
	if (!strcmp(op, "seterrfunc")) {
		NEED(3); LOC(1);
		cfg_set_error_function(loc_cfg, atoi(t[2]) == 2 ? h_errfunc2 : atoi(t[2]) ? h_errfunc : NULL);
		return;
	}
	if (!strcmp(op, "parse_buf")) {
		char *s; int rc;
		NEED(3); LOC(1);
		s = sdec(t[2], NULL);
		rc = cfg_parse_buf(loc_cfg, s);
		free(s);
		logret(op, rc);
		return;
	}
	if (!strcmp(op, "parse_fp")) {
		char *s; size_t n; int rc; FILE *fp;
		NEED(3); LOC(1);
		s = sdec(t[2], &n);
		fp = n ? fmemopen(s, n, "r") : fopen("/dev/null", "r");
		if (!fp) die("fmemopen");
		rc = cfg_parse_fp(loc_cfg, fp);
		fclose(fp);
		free(s);
		logret(op, rc);
		return;
	}
	if (!strcmp(op, "parse_file")) {
		char *s; int rc;
		NEED(3); LOC(1);
		s = sdec(t[2], NULL);
		rc = cfg_parse(loc_cfg, s);
		free(s);
		logret(op, rc);
		return;
	}
	if (!strcmp(op, "dump")) {
		NEED(2); LOC(1);
		fputs("{\"ev\":\"dump\",\"tree\":", LOG);
		dump_cfg(loc_cfg, 0);
		fprintf(LOG, ",\"file\":");
		jhex(loc_cfg->filename);
		fprintf(LOG, ",\"line\":%d}\n", loc_cfg->line);
		evflush();
		return;
	}
	if (!strcmp(op, "dumpsec")) {
		/* dumpsec <L> <path>: dump of the section cfg_getsec(path) returns */
		char *path; cfg_t *sec;
		NEED(3); LOC(1);
		path = sdec(t[2], NULL);
		sec = cfg_getsec(loc_cfg, path);
		free(path);
		fputs("{\"ev\":\"dumpsec\",\"tree\":", LOG);
		dump_cfg(sec, 0);
		fputs("}\n", LOG);
		evflush();
		return;
	}
	if (!strcmp(op, "vhash")) {
		/* hash of the values-only dump (names, titles, values; no flags, no annotations) */
		char *buf = NULL; size_t sz = 0, k; FILE *save = LOG, *ms; unsigned long h = 1469598103934665603ul;
		NEED(2); LOC(1);
		ms = open_memstream(&buf, &sz);
		if (!ms) die("open_memstream");
		LOG = ms; dump_values_only = (nt > 2 && atoi(t[2])) ? 2 : 1;      /* vhash <ctx> 1: annotations included */
		dump_cfg(loc_cfg, 0);
		dump_values_only = 0; LOG = save;
		fclose(ms);
		for (k = 0; k < sz; k++) { h ^= (unsigned char)buf[k]; h *= 1099511628211ul; }
		free(buf);
		fprintf(LOG, "{\"ev\":\"vhash\",\"h\":\"%016lx\"}\n", h);
		evflush();
		return;
	}
	if (!strcmp(op, "snap")) {
		NEED(2); LOCOPT(1);
		fputs("{\"ev\":\"snap\",\"opt\":", LOG);
		dump_opt(loc_opt, 0);
		fputs("}\n", LOG);
		evflush();
		return;
	}
	if (!strcmp(op, "print")) { NEED(2); LOC(1); print_to_mem(op, loc_cfg, NULL, 0, 0); return; }
	if (!strcmp(op, "print_indent")) { NEED(3); LOC(1); print_to_mem(op, loc_cfg, NULL, atoi(t[2]), 1); return; }
	if (!strcmp(op, "opt_print")) { NEED(2); LOCOPT(1); print_to_mem(op, NULL, loc_opt, 0, 2); return; }
	if (!strcmp(op, "opt_print_indent")) { NEED(3); LOCOPT(1); print_to_mem(op, NULL, loc_opt, atoi(t[2]), 3); return; }

	/* ---- print_parse <srcL> <dstL>: print src into memory, parse that text into dst */
	if (!strcmp(op, "print_parse")) {
		char *buf = NULL; size_t sz = 0; FILE *fp; cfg_t *src; int prc, rc;
		NEED(3); LOC(1);
		src = loc_cfg;
		LOC(2);
		fp = open_memstream(&buf, &sz);
		if (!fp) die("open_memstream");
		prc = cfg_print(src, fp);
		fclose(fp);
		fprintf(LOG, "{\"ev\":\"printed\",\"rc\":%d,\"out\":", prc);
		jhexn(buf, sz);
		fputs("}\n", LOG);
		evflush();
		if (memchr(buf, 0, sz)) rc = -77;	/* a NUL in the output cannot be parsed back as a buffer */
		else rc = cfg_parse_buf(loc_cfg, buf);
		free(buf);
		logret(op, rc);
		return;
	}
	/* ---- by-name typed setters: set{int,float,bool,str} <L> <name> <val> [<idx>] */
	if (!strcmp(op, "setint") || !strcmp(op, "setfloat") || !strcmp(op, "setbool") || !strcmp(op, "setstr")) {
		char *name, *sv = NULL; int rc = -99; long idx = -1;
		NEED(4); LOC(1);
		name = sdec(t[2], NULL);
		if (nt > 4) idx = atol(t[4]);
		if (op[3] == 'i') rc = idx < 0 ? cfg_setint(loc_cfg, name, strtol(t[3], NULL, 0)) : cfg_setnint(loc_cfg, name, strtol(t[3], NULL, 0), (unsigned)idx);
		else if (op[3] == 'f') rc = idx < 0 ? cfg_setfloat(loc_cfg, name, strtod(t[3], NULL)) : cfg_setnfloat(loc_cfg, name, strtod(t[3], NULL), (unsigned)idx);
		else if (op[3] == 'b') rc = idx < 0 ? cfg_setbool(loc_cfg, name, atoi(t[3])) : cfg_setnbool(loc_cfg, name, atoi(t[3]), (unsigned)idx);
		else { sv = sdec(t[3], NULL); rc = idx < 0 ? cfg_setstr(loc_cfg, name, sv) : cfg_setnstr(loc_cfg, name, sv, (unsigned)idx); }
		free(name); free(sv);
		logret(op, rc);
		return;
	}
	/* ---- selfstr <L> <name> <from> <to>: cfg_setnstr(name, cfg_getnstr(name, from), to) - the argument aliases a stored value */
	if (!strcmp(op, "selfstr")) {
		char *name; int rc;
		NEED(5); LOC(1);
		name = sdec(t[2], NULL);
		rc = cfg_setnstr(loc_cfg, name, cfg_getnstr(loc_cfg, name, (unsigned)atol(t[3])), (unsigned)atol(t[4]));
		free(name);
		logret(op, rc);
		return;
	}
	/* ---- by-opt typed setters: opt_set{int,float,bool,str} <optL> <val> <idx> */
	if (!strncmp(op, "opt_set", 7) && (!strcmp(op + 7, "int") || !strcmp(op + 7, "float") || !strcmp(op + 7, "bool") || !strcmp(op + 7, "str"))) {
		char *sv = NULL; int rc; unsigned idx;
		NEED(4); LOCOPT(1);
		idx = (unsigned)atol(t[3]);
		if (op[7] == 'i') rc = cfg_opt_setnint(loc_opt, strtol(t[2], NULL, 0), idx);
		else if (op[7] == 'f') rc = cfg_opt_setnfloat(loc_opt, strtod(t[2], NULL), idx);
		else if (op[7] == 'b') rc = cfg_opt_setnbool(loc_opt, atoi(t[2]), idx);
		else { sv = sdec(t[2], NULL); rc = cfg_opt_setnstr(loc_opt, sv, idx); }
		free(sv);
		logret(op, rc);
		return;
	}
	/* ---- setlist/addlist <L> <name> <type> <n> v... (n <= 4) */
	if (!strcmp(op, "setlist") || !strcmp(op, "addlist")) {
		char *name, *sv[4] = { 0, 0, 0, 0 }; int n, i, rc = -99, add = op[0] == 'a';
		NEED(5); LOC(1);
		name = sdec(t[2], NULL);
		n = atoi(t[4]);
		if (n < 0 || n > 4 || nt < 5 + n) die("setlist arity");
		if (!strcmp(t[3], "int")) {
			int v[4] = { 0, 0, 0, 0 };
			for (i = 0; i < n; i++) v[i] = (int)strtol(t[5 + i], NULL, 0);
			rc = add ? cfg_addlist(loc_cfg, name, n, v[0], v[1], v[2], v[3]) : cfg_setlist(loc_cfg, name, n, v[0], v[1], v[2], v[3]);
		} else if (!strcmp(t[3], "float")) {
			double v[4] = { 0, 0, 0, 0 };
			for (i = 0; i < n; i++) v[i] = strtod(t[5 + i], NULL);
			rc = add ? cfg_addlist(loc_cfg, name, n, v[0], v[1], v[2], v[3]) : cfg_setlist(loc_cfg, name, n, v[0], v[1], v[2], v[3]);
		} else if (!strcmp(t[3], "bool")) {
			cfg_bool_t v[4] = { 0, 0, 0, 0 };
			for (i = 0; i < n; i++) v[i] = (cfg_bool_t)atoi(t[5 + i]);
			rc = add ? cfg_addlist(loc_cfg, name, n, v[0], v[1], v[2], v[3]) : cfg_setlist(loc_cfg, name, n, v[0], v[1], v[2], v[3]);
		} else {
			for (i = 0; i < n; i++) sv[i] = sdec(t[5 + i], NULL);
			rc = add ? cfg_addlist(loc_cfg, name, n, sv[0], sv[1], sv[2], sv[3]) : cfg_setlist(loc_cfg, name, n, sv[0], sv[1], sv[2], sv[3]);
		}
		for (i = 0; i < 4; i++) free(sv[i]);
		free(name);
		logret(op, rc);
		return;
	}
	/* ---- setmulti <L> <name> <n> v...   /  opt_setmulti <L> <optL> <n> v... */
	if (!strcmp(op, "setmulti") || !strcmp(op, "opt_setmulti")) {
		char *name = NULL, *sv[16]; int n, i, rc; cfg_t *c; cfg_opt_t *o = NULL;
		NEED(4); LOC(1);
		c = loc_cfg;
		if (op[0] == 'o') { LOCOPT(2); o = loc_opt; }
		else name = sdec(t[2], NULL);
		n = atoi(t[3]);
		if (n < 0 || n > 16 || nt < 4 + n) die("setmulti arity");
		for (i = 0; i < n; i++) sv[i] = sdec(t[4 + i], NULL);
		rc = o ? cfg_opt_setmulti(c, o, n, sv) : cfg_setmulti(c, name, n, sv);
		for (i = 0; i < n; i++) free(sv[i]);
		free(name);
		logret(op, rc);
		return;
	}
	/* ---- setopt <L> <optL> <str> */
	if (!strcmp(op, "setopt")) {
		char *s; cfg_t *c; cfg_value_t *v; int eno = 0;
		NEED(4); LOC(1);
		c = loc_cfg;
		LOCOPT(2);
		s = sdec(t[3], NULL);
		if (nt > 4) eno = atoi(t[4]);
		errno = eno;
		v = cfg_setopt(c, loc_opt, s);
		free(s);
		logret(op, v ? 0 : -1);
		return;
	}
	if (!strcmp(op, "set_errno")) { NEED(2); errno = atoi(t[1]); sticky_errno = errno; return; }	/* also re-applied right before the next by-path look-up */
	/* ---- parse_buf with a chosen errno right before the call */
	if (!strcmp(op, "parse_buf_errno")) {
		char *s; int rc;
		NEED(4); LOC(1);
		s = sdec(t[2], NULL);
		errno = atoi(t[3]);
		rc = cfg_parse_buf(loc_cfg, s);
		free(s);
		logret(op, rc);
		return;
	}
	if (!strcmp(op, "setmulti_errno")) {
		char *name, *sv[1]; int rc;
		NEED(5); LOC(1);
		name = sdec(t[2], NULL);
		sv[0] = sdec(t[3], NULL);
		errno = atoi(t[4]);
		rc = cfg_setmulti(loc_cfg, name, 1, sv);
		free(name); free(sv[0]);
		logret(op, rc);
		return;
	}
	if (!strcmp(op, "addtsec")) {
		char *name, *title; cfg_t *s; int cid;
		NEED(4); LOC(1);
		cid = atoi(t[1]);
		name = sdec(t[2], NULL); title = sdec(t[3], NULL);
		s = cfg_addtsec(loc_cfg, name, title);
		fprintf(LOG, "{\"ev\":\"r\",\"op\":\"addtsec\",\"rc\":%d,\"pos\":", s ? 0 : -1);
		log_pos(cid, NULL, s);
		fputs("}\n", LOG);
		free(name); free(title);
		evflush();
		return;
	}
	if (!strcmp(op, "rmnsec")) {
		char *name; int rc;
		NEED(4); LOC(1);
		name = sdec(t[2], NULL);
		rc = cfg_rmnsec(loc_cfg, name, (unsigned)atol(t[3]));
		free(name); logret(op, rc); return;
	}
	if (!strcmp(op, "rmtsec")) {
		char *name, *title; int rc;
		NEED(4); LOC(1);
		name = sdec(t[2], NULL); title = sdec(t[3], NULL);
		rc = cfg_rmtsec(loc_cfg, name, title);
		free(name); free(title); logret(op, rc); return;
	}
	if (!strcmp(op, "rmsec")) {
		char *path; int rc;
		NEED(3); LOC(1);
		path = sdec(t[2], NULL);
		rc = cfg_rmsec(loc_cfg, path);
		free(path); logret(op, rc); return;
	}
	if (!strcmp(op, "opt_rmnsec")) { NEED(3); LOCOPT(1); logret(op, cfg_opt_rmnsec(loc_opt, (unsigned)atol(t[2]))); return; }
	if (!strcmp(op, "opt_rmtsec")) {
		char *title; int rc;
		NEED(3); LOCOPT(1);
		title = sdec(t[2], NULL);
		rc = cfg_opt_rmtsec(loc_opt, title);
		free(title); logret(op, rc); return;
	}
	if (!strcmp(op, "setcomment")) {
		char *name, *c; int rc;
		NEED(4); LOC(1);
		name = sdec(t[2], NULL); c = sdec(t[3], NULL);
		rc = cfg_setcomment(loc_cfg, name, c);
		free(name); free(c); logret(op, rc); return;
	}
	if (!strcmp(op, "rmtsec_self")) {	/* remove a titled section, naming it by the title string the section itself owns */
		char *name; cfg_t *sec; int rc;
		NEED(4); LOC(1);
		name = sdec(t[2], NULL);
		sec = cfg_getnsec(loc_cfg, name, (unsigned)atol(t[3]));
		rc = sec ? cfg_rmtsec(loc_cfg, name, cfg_title(sec)) : -1;
		free(name);
		logret(op, rc);
		return;
	}
	if (!strcmp(op, "opt_free_value")) {	/* cfg_free_value(opt): the public call that empties an option */
		int rc;
		NEED(2); LOCOPT(1);
		rc = cfg_free_value(loc_opt);
		logret(op, rc);
		return;
	}
	if (!strcmp(op, "opt_setcomment")) {
		char *c; int rc;
		NEED(3); LOCOPT(1);
		c = sdec(t[2], NULL);
		rc = cfg_opt_setcomment(loc_opt, c);
		free(c); logret(op, rc); return;
	}
	/* ---- lookups: getopt/getsec <L> <path> -> position */
	if (!strcmp(op, "getopt") || !strcmp(op, "getsec")) {
		char *path; int cid;
		NEED(3); LOC(1);
		cid = atoi(t[1]);
		path = sdec(t[2], NULL);
		if (sticky_errno) { errno = sticky_errno; sticky_errno = 0; }
		if (op[3] == 'o') {
			cfg_opt_t *o = cfg_getopt(loc_cfg, path);
			fprintf(LOG, "{\"ev\":\"look\",\"op\":\"getopt\",\"pos\":");
			log_pos(cid, o, NULL);
		} else {
			cfg_t *s = cfg_getsec(loc_cfg, path);
			fprintf(LOG, "{\"ev\":\"look\",\"op\":\"getsec\",\"pos\":");
			log_pos(cid, NULL, s);
		}
		fputs("}\n", LOG);
		free(path);
		evflush();
		return;
	}
	/* ---- step <L> <kind:opt|sec> <n> (name qualkind qual)*n : walk with single-level accessors */
	if (!strcmp(op, "step")) {
		int n, i, cid, want_sec, ok = 1;
		cfg_t *c; cfg_opt_t *o = NULL;
		NEED(4); LOC(1);
		cid = atoi(t[1]);
		want_sec = !strcmp(t[2], "sec");
		n = atoi(t[3]);
		if (nt < 4 + 3 * n) die("step arity");
		c = loc_cfg;
		for (i = 0; i < n && ok; i++) {
			char *name = sdec(t[4 + 3 * i], NULL);
			const char *qk = t[5 + 3 * i];
			int last = i == n - 1;
			/* single-level lookup: walk the option array by index and compare names */
			unsigned k; cfg_opt_t *cand;
			o = NULL;
			for (k = 0; (cand = cfg_getnopt(c, k)); k++) {
				int eq = (c->flags & CFGF_NOCASE) ? !strcasecmp(cand->name, name) : !strcmp(cand->name, name);
				if (eq) { o = cand; break; }
			}
			free(name);
			if (!o) { ok = 0; break; }
			if (last && !want_sec) {
				if (qk[0] != 'n') ok = 0;
				break;
			}
			if (o->type != CFGT_SEC) { ok = 0; break; }
			if (qk[0] == 'n') {
				c = cfg_opt_getnsec(o, 0);
			} else if (qk[0] == 'i') {
				if (!(o->flags & CFGF_MULTI)) { ok = 0; break; }
				c = cfg_opt_getnsec(o, (unsigned)atol(t[6 + 3 * i]));
			} else {
				char *title = sdec(t[6 + 3 * i], NULL);
				if (!(o->flags & CFGF_MULTI)) { ok = 0; free(title); break; }
				c = cfg_opt_gettsec(o, title);
				free(title);
			}
			if (!c) ok = 0;
		}
		fprintf(LOG, "{\"ev\":\"look\",\"op\":\"step\",\"pos\":");
		if (!ok) fputs("null", LOG);
		else if (want_sec) log_pos(cid, NULL, c);
		else log_pos(cid, o, NULL);
		fputs("}\n", LOG);
		evflush();
		return;
	}
	/* ---- by-path getters: get <L> <kind> <path> <idx> */
	if (!strcmp(op, "get")) {
		char *path; unsigned idx;
		NEED(5); LOC(1);
		path = sdec(t[3], NULL);
		idx = (unsigned)atol(t[4]);
		/* monitor: the getter families are one function seen through three doors - by name with index, by name (index 0), by option */
		if (getter_monitor) {
			cfg_opt_t *go = cfg_getopt(loc_cfg, path);
			const char *why = NULL;
			if (!strcmp(t[2], "int")) {
				long a = cfg_getnint(loc_cfg, path, idx);
				if (go && cfg_opt_getnint(go, idx) != a) why = "cfg_opt_getnint";
				if (idx == 0 && cfg_getint(loc_cfg, path) != a) why = "cfg_getint";
			} else if (!strcmp(t[2], "float")) {
				double a = cfg_getnfloat(loc_cfg, path, idx);
				if (go && memcmp(&a, (double[]){cfg_opt_getnfloat(go, idx)}, sizeof a)) why = "cfg_opt_getnfloat";
				if (idx == 0 && memcmp(&a, (double[]){cfg_getfloat(loc_cfg, path)}, sizeof a)) why = "cfg_getfloat";
			} else if (!strcmp(t[2], "bool")) {
				cfg_bool_t a = cfg_getnbool(loc_cfg, path, idx);
				if (go && cfg_opt_getnbool(go, idx) != a) why = "cfg_opt_getnbool";
				if (idx == 0 && cfg_getbool(loc_cfg, path) != a) why = "cfg_getbool";
			} else if (!strcmp(t[2], "str")) {
				char *a = cfg_getnstr(loc_cfg, path, idx);
				if (go && cfg_opt_getnstr(go, idx) != a) why = "cfg_opt_getnstr";
				if (idx == 0 && cfg_getstr(loc_cfg, path) != a) why = "cfg_getstr";
				if (idx == 0 && go && cfg_opt_getstr(go) != a) why = "cfg_opt_getstr";
			} else if (!strcmp(t[2], "size")) {
				if (go && cfg_opt_size(go) != cfg_size(loc_cfg, path)) why = "cfg_opt_size";
			} else if (!strcmp(t[2], "comment")) {
				if (go && cfg_opt_getcomment(go) != cfg_getcomment(loc_cfg, path)) why = "cfg_opt_getcomment";
			}
			if (why) fprintf(LOG, "{\"ev\":\"api-disagree\",\"what\":\"%s\",\"idx\":%u}\n", why, idx);
		}
		fprintf(LOG, "{\"ev\":\"get\",\"k\":\"%s\",\"v\":", t[2]);
		if (!strcmp(t[2], "int")) fprintf(LOG, "%ld", cfg_getnint(loc_cfg, path, idx));
		else if (!strcmp(t[2], "float")) fprintf(LOG, "\"%a\"", cfg_getnfloat(loc_cfg, path, idx));
		else if (!strcmp(t[2], "bool")) fprintf(LOG, "%d", (int)cfg_getnbool(loc_cfg, path, idx));
		else if (!strcmp(t[2], "str")) jhex(cfg_getnstr(loc_cfg, path, idx));
		else if (!strcmp(t[2], "size")) fprintf(LOG, "%u", cfg_size(loc_cfg, path));
		else if (!strcmp(t[2], "comment")) jhex(cfg_getcomment(loc_cfg, path));
		else if (!strcmp(t[2], "nsec")) { log_pos(atoi(t[1]), NULL, cfg_getnsec(loc_cfg, path, idx)); }
		else fputs("null", LOG);
		fputs("}\n", LOG);
		free(path);
		evflush();
		return;
	}
	if (!strcmp(op, "gettsec")) {
		char *name, *title;
		NEED(4); LOC(1);
		name = sdec(t[2], NULL); title = sdec(t[3], NULL);
		fprintf(LOG, "{\"ev\":\"look\",\"op\":\"gettsec\",\"pos\":");
		log_pos(atoi(t[1]), NULL, cfg_gettsec(loc_cfg, name, title));
		fputs("}\n", LOG);
		free(name); free(title);
		evflush();
		return;
	}
	/* ---- callbacks / filters */
	if (!strcmp(op, "failat")) { NEED(2); failat = atol(t[1]); cbcount = 0; return; }
	if (!strcmp(op, "v2mode")) { NEED(2); v2mode = atoi(t[1]); return; }
	if (!strcmp(op, "nestmode")) { NEED(2); nestmode = atoi(t[1]); return; }
	if (!strcmp(op, "set_print_func")) {
		char *name;
		NEED(4); LOC(1);
		name = sdec(t[2], NULL);
		cfg_set_print_func(loc_cfg, name, atoi(t[3]) ? h_printfunc : NULL);
		free(name);
		return;
	}
	if (!strcmp(op, "opt_set_print_func")) {
		NEED(3); LOCOPT(1);
		cfg_opt_set_print_func(loc_opt, atoi(t[2]) ? h_printfunc : NULL);
		return;
	}
	if (!strcmp(op, "set_filter")) {
		int slot;
		NEED(4); LOC(1);
		slot = atoi(t[2]);
		if (slot >= 8) die("filter slot");
		if (slot >= 0) pff_mask[slot] = (unsigned)strtoul(t[3], NULL, 0);
		cfg_set_print_filter_func(loc_cfg, slot >= 0 ? pff_tab[slot] : NULL);
		return;
	}
	if (!strcmp(op, "pff_log")) { NEED(2); pff_log = atoi(t[1]); return; }
	if (!strcmp(op, "set_validate_func") || !strcmp(op, "set_validate_func2")) {
		char *path; int two = op[17] == '2'; void *old;
		NEED(4); LOC(1);
		path = sdec(t[2], NULL);
		if (two) old = (void *)cfg_set_validate_func2(loc_cfg, path, atoi(t[3]) ? h_validcb2 : NULL);
		else old = (void *)cfg_set_validate_func(loc_cfg, path, atoi(t[3]) ? h_validcb : NULL);
		(void)old;
		free(path);
		return;
	}
	/* ---- files */
	if (!strcmp(op, "add_searchpath")) {
		char *d; int rc;
		NEED(3); LOC(1);
		d = sdec(t[2], NULL);
		rc = cfg_add_searchpath(loc_cfg, d);
		free(d); logret(op, rc); return;
	}
	if (!strcmp(op, "searchpath")) {
		char *f, *r;
		NEED(3); LOC(1);
		f = sdec(t[2], NULL);
		r = cfg_searchpath(loc_cfg->path, f);
		fprintf(LOG, "{\"ev\":\"path\",\"op\":\"searchpath\",\"v\":");
		jhex(r);
		fprintf(LOG, ",\"fresh\":%d}\n", r && r != f);
		vm_free(r);
		free(f);
		evflush();
		return;
	}
	if (!strcmp(op, "tilde")) {
		char *f, *r;
		NEED(2);
		f = sdec(t[1], NULL);
		r = cfg_tilde_expand(f);
		fprintf(LOG, "{\"ev\":\"path\",\"op\":\"tilde\",\"v\":");
		jhex(r);
		fprintf(LOG, ",\"fresh\":%d}\n", r && r != f);
		vm_free(r);
		free(f);
		evflush();
		return;
	}
	if (!strcmp(op, "parse_boolean")) {
		char *s;
		NEED(2);
		s = sdec(t[1], NULL);
		logret(op, cfg_parse_boolean(s));
		free(s);
		return;
	}
	if (!strcmp(op, "mkfile")) {
		char *path, *content; size_t n; FILE *fp;
		NEED(3);
		path = sdec(t[1], NULL); content = sdec(t[2], &n);
		fp = fopen(path, "w");
		if (!fp) die("mkfile %s", path);
		if (n) fwrite(content, 1, n, fp);
		fclose(fp);
		free(path); free(content);
		return;
	}
	if (!strcmp(op, "mkdir")) {
		char *path;
		NEED(2);
		path = sdec(t[1], NULL);
		if (mkdir(path, 0755) && errno != EEXIST) die("mkdir %s", path);
		free(path);
		return;
	}
	if (!strcmp(op, "symlink")) {
		char *target, *path;
		NEED(3);
		target = sdec(t[1], NULL); path = sdec(t[2], NULL);
		if (symlink(target, path) && errno != EEXIST) die("symlink %s", path);
		free(target); free(path);
		return;
	}
	if (!strcmp(op, "seteuid")) {
		NEED(2);
		logret(op, seteuid((uid_t)atol(t[1])));
		return;
	}
	if (!strcmp(op, "setenv")) {
		char *n, *v;
		NEED(3);
		n = sdec(t[1], NULL); v = sdec(t[2], NULL);
		setenv(n, v, 1);
		if (nenvset < 64) envset[nenvset++] = n; else free(n);
		free(v);
		return;
	}
	if (!strcmp(op, "unsetenv")) {
		char *n;
		NEED(2);
		n = sdec(t[1], NULL);
		unsetenv(n);
		free(n);
		return;
	}
	if (!strcmp(op, "chdir")) {
		char *d;
		NEED(2);
		d = sdec(t[1], NULL);
		if (chdir(d)) die("chdir %s", d);
		free(d);
		return;
	}
	/* ---- monitors */
	if (!strcmp(op, "mon")) {
		int sc = -1, bd = -1;
#ifdef LIBCONFUSE_VERIF
		cfg_verif_scanner_state(&sc, &bd);
#endif
		fprintf(LOG, "{\"ev\":\"mon\",\"live\":%lu,\"files\":%lu,\"fds\":%d,\"toks\":%ld,\"incptr\":%d,\"startcond\":%d,\"bufdepth\":%d,\"cbcount\":%ld}\n",
			vm_live_count(), vm_files_live(), fd_count(), tokens_out, cfg_include_stack_ptr, sc, bd, cbcount);
		evflush();
		return;
	}
	if (!strcmp(op, "stdio")) { check_stdio(); evflush(); return; }
	if (!strcmp(op, "oomat")) { NEED(2); vm_set_oom(atol(t[1])); getter_monitor = 0; return; }	/* (the monitor's own look-ups allocate: not inside a fault-injection script) */
	if (!strcmp(op, "oomstat")) {
		fprintf(LOG, "{\"ev\":\"oom\",\"count\":%lu,\"failed\":", vm_alloc_count());
		if (vm_fail_func()) fprintf(LOG, "{\"f\":\"%s\",\"l\":%d,\"k\":\"%s\"}", vm_fail_func(), vm_fail_line(), vm_fail_kind());
		else fputs("null", LOG);
		if (nt > 1 && !strcmp(t[1], "trace")) { fputs(",\"trace\":", LOG); vm_trace_report(LOG); }
		fputs("}\n", LOG);
		fflush(LOG);
		return;
	}
	if (!strcmp(op, "flush")) { fflush(LOG); return; }
	if (!strcmp(op, "stacklimit")) {
		struct rlimit rl;
		NEED(2);
		rl.rlim_cur = rl.rlim_max = (rlim_t)atol(t[1]);
		setrlimit(RLIMIT_STACK, &rl);
		return;
	}
	if (!strcmp(op, "note")) {
		fprintf(LOG, "{\"ev\":\"note\",\"t\":\"%s\"}\n", nt > 1 ? t[1] : "");
		evflush();
		return;
	}
	die("unknown op '%s' (line %ld)", op, lineno);
}

int main(int argc, char **argv)
{
	FILE *sf;
	char *line = NULL;
	size_t cap = 0;
	ssize_t n;
	int lfd;
	static char *toks[4200];

	if (argc < 3) { fprintf(stderr, "usage: vdrv <script> <log>\n"); return 3; }
	if (!getcwd(startdir, sizeof startdir)) return 3;
	lfd = open(argv[2], O_WRONLY | O_CREAT | O_TRUNC | O_CLOEXEC, 0644);
	if (lfd < 0) { perror(argv[2]); return 3; }
	if (dup2(lfd, 250) < 0) { perror("dup2"); return 3; }
	close(lfd);
	LOG = fdopen(250, "w");
	setvbuf(LOG, NULL, _IOFBF, 1 << 16);
	flush_every = getenv("VDRV_FLUSH") != NULL;
	sf = fopen(argv[1], "r");
	if (!sf) { perror(argv[1]); return 3; }
	{
		/* keep the script on a high descriptor too, so the library sees 0..2 + nothing */
		int sfd = dup(fileno(sf));
		FILE *sf2;
		dup2(sfd, 251);
		close(sfd);
		fclose(sf);
		sf2 = fdopen(251, "r");
		sf = sf2;
	}
	setup_stdio();
	setenv("LC_ALL", "C", 1);

	while ((n = getline(&line, &cap, sf)) >= 0) {
		int nt = 0;
		char *p = line, *save = NULL, *tok;
		lineno++;
		if (n && line[n - 1] == '\n') line[n - 1] = 0;
		if (!line[0] || line[0] == '#') continue;
		while ((tok = strtok_r(p, " ", &save)) && nt < 4199) { toks[nt++] = tok; p = NULL; }
		if (!nt) continue;
		run_op(toks, nt);
		/* report during which op an injected allocation failure struck (once) */
		if (vm_fail_func() && !oomhit_reported) {
			oomhit_reported = 1;
			fprintf(LOG, "{\"ev\":\"oomhit\",\"op\":\"%s\"}\n", toks[0]);
		}
		if (!vm_fail_func()) oomhit_reported = 0;
	}
	free(line);
	fprintf(LOG, "{\"ev\":\"done\"}\n");
	fflush(LOG);
	return 0;
}
