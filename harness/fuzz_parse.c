/* libFuzzer target for C02: byte 0 selects schema/flags, byte 1 the entry point, the rest is the text.
 * Monitors beyond ASan/UBSan/libFuzzer: anything written to stdout, any read of stdin, return code domain,
 * post-parse usability (walk, print, parse again, free).
 */
#define _GNU_SOURCE
#include <stdio.h>
#include <stdlib.h>
#include <string.h>
#include <stdint.h>
#include <unistd.h>
#include <fcntl.h>
#include <sys/mman.h>
#include <sys/stat.h>
#include "confuse.h"

static char workdir[256];
static FILE *devnull;

static int cb_func(cfg_t *cfg, cfg_opt_t *opt, int argc, const char **argv)
{
	int i; size_t n = 0;
	(void)cfg; (void)opt;
	for (i = 0; i < argc; i++) n += strlen(argv[i]);
	return n == 77777;	/* practically never fails, but reads every argument */
}
static int cb_parse_int(cfg_t *cfg, cfg_opt_t *opt, const char *value, void *result)
{
	(void)cfg; (void)opt;
	if (!value || strlen(value) > 40) return 1;
	*(long *)result = (long)strlen(value);
	return 0;
}
static int cb_valid(cfg_t *cfg, cfg_opt_t *opt)
{
	(void)cfg;
	return cfg_opt_size(opt) > 50;
}
static void errfunc(cfg_t *cfg, const char *fmt, va_list ap)
{
	char buf[512];
	(void)cfg;
	vsnprintf(buf, sizeof buf, fmt, ap);	/* format it, drop it */
}

static cfg_opt_t sub2[] = { CFG_INT("y", 0, CFGF_NONE), CFG_STR_LIST("yl", "{a, b}", CFGF_NONE), CFG_FUNC("include", cfg_include), CFG_END() };
static cfg_opt_t sub1[] = { CFG_INT("x", 9, CFGF_NONE), CFG_STR("xs", "d", CFGF_NONE), CFG_INT_LIST("xl", "{1, 2}", CFGF_NONE),
	CFG_SEC("sub", sub2, CFGF_MULTI), CFG_SEC("tsub", sub2, CFGF_MULTI | CFGF_TITLE), CFG_FUNC("include", cfg_include), CFG_FUNC("fn", cb_func), CFG_END() };
static cfg_opt_t kvopts[] = { CFG_STR("known", "k", CFGF_NONE), CFG_END() };
static cfg_opt_t opts[] = {
	CFG_INT("i", 1, CFGF_NONE), CFG_FLOAT("f", 0.5, CFGF_NONE), CFG_BOOL("b", cfg_false, CFGF_NONE), CFG_STR("s", "dflt", CFGF_NONE),
	CFG_INT_LIST("il", "{1, 2}", CFGF_NONE), CFG_STR_LIST("sl", "{a}", CFGF_NONE), CFG_FLOAT_LIST("fl", 0, CFGF_NONE), CFG_BOOL_LIST("bl", 0, CFGF_NODEFAULT),
	CFG_INT_CB("icb", 0, CFGF_NONE, cb_parse_int), CFG_STR("dep", "old", CFGF_DEPRECATED), CFG_INT("drop", 3, CFGF_DEPRECATED | CFGF_DROP),
	CFG_SEC("sec", sub1, CFGF_MULTI | CFGF_TITLE), CFG_SEC("usec", sub1, CFGF_MULTI | CFGF_TITLE | CFGF_NO_TITLE_DUPES), CFG_SEC("msec", sub2, CFGF_MULTI),
	CFG_SEC("one", sub1, CFGF_NONE), CFG_SEC("nd", sub2, CFGF_NODEFAULT), CFG_SEC("kv", kvopts, CFGF_KEYSTRVAL), CFG_SEC("root", sub2, CFGF_MULTI | CFGF_TITLE),
	CFG_FUNC("include", cfg_include), CFG_FUNC("fn", cb_func), CFG_END()
};

static const int FLAGS[8] = { 0, CFGF_NOCASE, CFGF_COMMENTS, CFGF_IGNORE_UNKNOWN, CFGF_COMMENTS | CFGF_IGNORE_UNKNOWN, CFGF_NOCASE | CFGF_COMMENTS, CFGF_IGNORE_UNKNOWN | CFGF_NOCASE, CFGF_COMMENTS };

static void fail(const char *what)
{
	fprintf(stderr, "C02-MONITOR: %s\n", what);
	abort();
}

int LLVMFuzzerInitialize(int *argc, char ***argv)
{
	int fd;
	const char *tmp = getenv("VERIF_FUZZ_DIR");
	(void)argc; (void)argv;
	snprintf(workdir, sizeof workdir, "%s/fz%d", tmp ? tmp : "/tmp", (int)getpid());
	mkdir(workdir, 0700);
	fd = memfd_create("stdout", 0);
	fflush(stdout);
	dup2(fd, 1);
	close(fd);
	fd = memfd_create("stdin", 0);
	if (write(fd, "stdin_sentinel = 1\n", 19) < 0) {}
	lseek(fd, 0, SEEK_SET);
	dup2(fd, 0);
	close(fd);
	devnull = fopen("/dev/null", "w");
	setenv("LC_ALL", "C", 1);
	setenv("VERIF_FUZZ_VAR", "value", 1);
	return 0;
}

static void walk(cfg_t *cfg, int depth)
{
	unsigned i, j;
	cfg_opt_t *o;
	if (!cfg || depth > 50) return;
	(void)cfg_title(cfg); (void)cfg_name(cfg);
	for (i = 0; (o = cfg_getnopt(cfg, i)); i++) {
		unsigned n = cfg_opt_size(o);
		(void)cfg_opt_getcomment(o);
		for (j = 0; j < n; j++) {
			switch (o->type) {
			case CFGT_INT: (void)cfg_opt_getnint(o, j); break;
			case CFGT_FLOAT: (void)cfg_opt_getnfloat(o, j); break;
			case CFGT_BOOL: (void)cfg_opt_getnbool(o, j); break;
			case CFGT_STR: { const char *s = cfg_opt_getnstr(o, j); if (s) (void)strlen(s); break; }
			case CFGT_SEC: walk(cfg_opt_getnsec(o, j), depth + 1); break;
			default: break;
			}
		}
	}
}

int LLVMFuzzerTestOneInput(const uint8_t *data, size_t size)
{
	cfg_t *cfg;
	int flags, mode, rc = 0;
	char path[400], ipath[400];
	char *text;
	FILE *fp;

	if (size < 2) return 0;
	/* a text that names the terminal, an endless device or our own descriptors asks for the hang itself */
	if (memmem(data, size, "/dev/", 5) || memmem(data, size, "/proc/", 6) || memmem(data, size, "/sys/", 5)) return 0;
	flags = FLAGS[data[0] & 7];
	mode = data[1] & 3;
	data += 2; size -= 2;

	cfg = cfg_init(opts, flags);
	if (!cfg) fail("cfg_init failed");
	cfg_set_error_function(cfg, errfunc);
	if (data[-2] & 8) cfg_set_validate_func(cfg, "il", cb_valid);
	if (data[-2] & 16) cfg_add_searchpath(cfg, workdir);

	snprintf(path, sizeof path, "%s/in.conf", workdir);
	snprintf(ipath, sizeof ipath, "%s/wrap.conf", workdir);
	switch (mode) {
	case 0:	/* buffer: NUL terminated copy (text ends at the first NUL) */
		text = malloc(size + 1);
		memcpy(text, data, size);
		text[size] = 0;
		rc = cfg_parse_buf(cfg, text);
		free(text);
		break;
	case 1:	/* stream with arbitrary bytes */
		if (size) {
			text = malloc(size);
			memcpy(text, data, size);
			fp = fmemopen(text, size, "r");
			rc = cfg_parse_fp(cfg, fp);
			fclose(fp);
			free(text);
		}
		break;
	case 2:	/* file */
	case 3:	/* through include("...") */
		fp = fopen(path, "w");
		if (fp) { fwrite(data, 1, size, fp); fclose(fp); }
		if (mode == 2) {
			rc = cfg_parse(cfg, (data[-2] & 16) ? "in.conf" : path);
		} else {
			char wrap[600];
			snprintf(wrap, sizeof wrap, "i = 2\ninclude(\"%s\")\ns = \"after\"\n", (data[-2] & 16) ? "in.conf" : path);
			rc = cfg_parse_buf(cfg, wrap);
		}
		break;
	}
	if (rc != CFG_SUCCESS && rc != CFG_PARSE_ERROR && rc != CFG_FILE_ERROR) fail("return code outside {success, parse error, file error}");

	/* still usable? */
	walk(cfg, 0);
	cfg_print(cfg, devnull);
	(void)cfg_getopt(cfg, "sec=a|sub=0|y");
	rc = cfg_parse_buf(cfg, "i = 41\n");
	if (rc != CFG_SUCCESS) fail("context refuses a trivial text after the fuzzed parse");
	if (cfg_getint(cfg, "i") != 41) fail("trivial text after the fuzzed parse has no effect");
	cfg_free(cfg);

	fflush(stdout);
	if (lseek(1, 0, SEEK_CUR) > 0 || lseek(1, 0, SEEK_END) > 0) fail("bytes written to stdout");
	if (lseek(0, 0, SEEK_CUR) != 0) fail("stdin was read");
	return 0;
}
